package props

import (
	"go/token"
	"go/types"
	"strings"

	"godcheck/core"

	"golang.org/x/tools/go/ssa"
)

// Rule added with the fix of finding C10-f1 (a second TimingWheel.Stop panicked with
// "close of closed channel").
//
// The wheel is closed by closing its stop channel; every operation finds the wheel
// closed by receiving from that channel. Stop is one of the operations and has no error
// result, so "every operation after Stop reports ErrClosed" leaves it one thing to do on
// a closed wheel: return. The channel close must therefore be executed at most once per
// wheel whatever the history of calls (the API is used from many goroutines: two Stops
// may overlap, so a mere look at the channel before closing it is not enough).

const c10OncePkgPath = "sync"

// c10StopCloses lists the close(ch) calls of the package whose channel is the wheel's stopChannel.
func c10StopCloses(p *core.Prog, pkg string) []ssa.CallInstruction {
	var out []ssa.CallInstruction
	for _, f := range c10Funcs(p, pkg) {
		for _, c := range core.Calls(f, core.CallTo("builtin:close")) {
			if a := core.Args(c); len(a) == 1 && chanField(a[0]) == "stopChannel" {
				out = append(out, c)
			}
		}
	}
	return out
}

// c10WheelOf returns the wheel value a field address / a loaded field of a TimingWheel hangs off
// (`&w.f`, `w.f`), or nil.
func c10WheelOf(v ssa.Value) ssa.Value {
	v = core.Forward(v)
	for i := 0; i < 4; i++ {
		if ct, ok := v.(*ssa.ChangeType); ok {
			v = core.Forward(ct.X)
			continue
		}
		break
	}
	if u, ok := v.(*ssa.UnOp); ok && u.Op == token.MUL {
		if fa, ok := u.X.(*ssa.FieldAddr); ok {
			v = fa
		}
	}
	fa, ok := v.(*ssa.FieldAddr)
	if !ok || !strings.HasPrefix(core.FieldAddrName(fa), "TimingWheel.") {
		return nil
	}
	return fa.X
}

// c10SameWheel: two wheel values, possibly in different functions of one closure
// environment, denote the same wheel — the same parameter (read directly, through the
// cell a function literal captured it in, or as the receiver a bound method value was
// made from). known is false when either cannot be traced to a parameter.
func c10SameWheel(a, b ssa.Value) (same, known bool) {
	ra, rb := c10WheelRoot(a), c10WheelRoot(b)
	if ra == nil || rb == nil {
		return false, false
	}
	return ra == rb, true
}

func c10WheelRoot(v ssa.Value) ssa.Value {
	if v == nil || v.Parent() == nil {
		return nil
	}
	f := v.Parent()
	for f.Parent() != nil {
		f = f.Parent()
	}
	// the environment of the outermost function resolves captured cells to what was stored in them
	r := newC06Env(f).value(v)
	if _, isParam := r.(*ssa.Parameter); isParam {
		return r
	}
	return nil
}

func c10IsOnceType(t types.Type) bool {
	if pt, ok := t.Underlying().(*types.Pointer); ok {
		t = pt.Elem()
	}
	n, ok := t.(*types.Named)
	return ok && n.Obj().Name() == "Once" && n.Obj().Pkg() != nil && n.Obj().Pkg().Path() == c10OncePkgPath
}

// c10casOps: compare-and-swap operations; the receiver/address is argument 0, old and new follow.
var c10casOps = map[string]bool{
	"sync/atomic.CompareAndSwapInt32": true, "sync/atomic.CompareAndSwapInt64": true,
	"sync/atomic.CompareAndSwapUint32": true, "sync/atomic.CompareAndSwapUint64": true,
	"(*sync/atomic.Int32).CompareAndSwap": true, "(*sync/atomic.Int64).CompareAndSwap": true,
	"(*sync/atomic.Uint32).CompareAndSwap": true, "(*sync/atomic.Uint64).CompareAndSwap": true,
	"(*sync/atomic.Bool).CompareAndSwap": true, "(*lib/syncx.AtomicBool).CompareAndSwap": true,
}

// c10atomicReads: operations on the flag that do not change it.
var c10atomicReads = map[string]bool{
	"sync/atomic.LoadInt32": true, "sync/atomic.LoadInt64": true, "sync/atomic.LoadUint32": true, "sync/atomic.LoadUint64": true,
	"(*sync/atomic.Int32).Load": true, "(*sync/atomic.Int64).Load": true, "(*sync/atomic.Uint32).Load": true, "(*sync/atomic.Uint64).Load": true,
	"(*sync/atomic.Bool).Load": true, "(*lib/syncx.AtomicBool).True": true,
}

func c10ConstKey(v ssa.Value) (string, bool) {
	c, ok := core.Strip(v).(*ssa.Const)
	if !ok || c.Value == nil {
		return "", false
	}
	return c.Value.ExactString(), true
}

// c10FieldUses lists the instructions of the package that take the address of (or load) the
// TimingWheel field tf on a wheel that is not under construction in the same function.
func c10FieldWrites(p *core.Prog, pkg, tf string, allowed func(ssa.Instruction) bool) []ssa.Instruction {
	var out []ssa.Instruction
	for _, f := range c10Funcs(p, pkg) {
		for _, b := range f.Blocks {
			for _, in := range b.Instrs {
				fa, ok := in.(*ssa.FieldAddr)
				if !ok || core.FieldAddrName(fa) != tf || fa.Referrers() == nil {
					continue
				}
				if _, fresh := core.Forward(fa.X).(*ssa.Alloc); fresh {
					continue // the constructor filling in a wheel nobody else has yet
				}
				var uses []ssa.Instruction
				for _, r := range *fa.Referrers() {
					if ld, isLoad := r.(*ssa.UnOp); isLoad && ld.Op == token.MUL && ld.Referrers() != nil {
						// a pointer-typed flag (`*AtomicBool`): what is done with the loaded pointer
						if _, isPtr := ld.Type().Underlying().(*types.Pointer); isPtr {
							uses = append(uses, *ld.Referrers()...)
						}
						continue
					}
					uses = append(uses, r)
				}
				for _, u := range uses {
					if _, dbg := u.(*ssa.DebugRef); dbg {
						continue
					}
					if c := core.AsCall(u); c != nil && c10atomicReads[core.Short(core.CalleeName(c))] {
						continue
					}
					if allowed != nil && allowed(u) {
						continue
					}
					out = append(out, u)
				}
			}
		}
	}
	return out
}

func c10Round9(r *core.Run, pkg string) {
	p := r.P
	r.Explanation += " Every close of the wheel's stop channel is executed at most once per wheel: inside sync.Once.Do on a Once kept in a field of the same wheel that nothing re-assigns, on the success edge of an atomic compare-and-swap of a field of the same wheel that nothing else writes, or behind a boolean field of the wheel tested, set and never cleared under one of the wheel's locks (a second Stop finds the wheel closed instead of panicking)."
	r.NotDecided += " Not decided for Stop: once-only wrappers other than sync.Once.Do / compare-and-swap / a flag under a lock (e.g. a closure returned by syncx.Once kept in a field) are reported as not understood; what the owner loop does between the close and its own exit."

	r.Check("D1/K10/stop-closes-once", "the wheel's stop channel is closed at most once per wheel whatever the history of calls (overlapping ones included): every close of TimingWheel.stopChannel runs (a) in a function that is only ever run as the argument of sync.Once.Do on a Once kept in a field of the same wheel, which nothing in the package assigns, or (b) only on the success edge of an atomic compare-and-swap, between two different constants, of a field of the same wheel that nothing else in the package writes, or (c) only where a boolean field of the same wheel was found false and is set to true before returning, test and store under a common lock, the field never being cleared ['every operation after Stop reports ErrClosed': Stop is an operation without an error result, so on a closed wheel it can only return — a second close of the channel panics in the caller's goroutine]", func(o *core.O) {
		closes := c10StopCloses(p, pkg)
		o.Site(len(closes), pkg)
		var la *core.LockAnalysis
		for _, c := range closes {
			f := c.Parent()
			r.Fn(core.FuncName(f))
			wheel := c10WheelOf(core.Args(c)[0])
			if wheel == nil {
				o.Unres("%s: the wheel whose stop channel is closed cannot be determined", p.InstrPos(c))
				continue
			}
			// (a) sync.Once.Do
			if dos := runViaOnce(f); len(dos) > 0 {
				if w := c10OtherUse(p, pkg, f); w != nil {
					o.Fail(p.InstrPos(w), "%s, which closes the stop channel, is also run outside sync.Once.Do: that call closes the channel whether or not it was closed before", core.FuncName(f))
				}
				for _, d := range dos {
					recv := core.Args(d)[0]
					ow := c10WheelOf(recv)
					switch {
					case !c10IsOnceType(recv.Type()):
						o.Unres("%s: receiver of Do is not a sync.Once", p.InstrPos(d))
					case ow == nil:
						o.Fail(p.InstrPos(d), "the stop channel is closed under a sync.Once that is not a field of the wheel (%s): a Once shared by all wheels lets only the first wheel ever stop, a Once made per call guards nothing – the next Stop closes the closed channel and panics", core.Describe(core.Forward(recv)))
					case !c10Same(o, p, d, ow, wheel) && !c10BoundSame(d, ow, wheel):
						o.Fail(p.InstrPos(d), "the sync.Once and the stop channel closed under it belong to different wheels")
					default:
						tf := core.FieldAddrName(c10FieldAddrOf(recv))
						for _, w := range c10FieldWrites(p, pkg, tf, func(in ssa.Instruction) bool {
							cc := core.AsCall(in)
							return cc != nil && core.CallTo("(*sync.Once).Do")(in)
						}) {
							o.Fail(p.InstrPos(w), "%s is assigned or handed on here: a Once that is reset lets Stop close the stop channel a second time", tf)
						}
					}
				}
				continue
			}
			// (b) compare-and-swap
			if c10GuardedByCAS(p, pkg, o, c, wheel) {
				continue
			}
			// (c) a flag under a lock
			if la == nil {
				la = core.NewLockAnalysis(p, pkg)
			}
			if c10GuardedByFlag(p, pkg, la, o, c, wheel) {
				continue
			}
			o.Fail(p.InstrPos(c), "%s closes the wheel's stop channel unconditionally (or behind a guard that two overlapping calls can both pass): called on a wheel that is already stopped – Stop after Stop, e.g. a deferred Stop after an explicit shutdown – it closes a closed channel and panics in the caller instead of finding the wheel closed", core.FuncName(f))
		}
	})
}

func c10FieldAddrOf(v ssa.Value) *ssa.FieldAddr {
	v = core.Forward(v)
	if u, ok := v.(*ssa.UnOp); ok && u.Op == token.MUL {
		v = u.X
	}
	fa, _ := v.(*ssa.FieldAddr)
	return fa
}

// c10BoundSame: once.Do(w.m) — the close sits in method m and its wheel is m's receiver; the
// receiver the method value was bound to must be the wheel the Once hangs off. The method value
// is a synthetic wrapper that calls m with the captured receiver or — in a program variant — has
// m's body inlined over the captured receiver; closeWheel is the wheel whose channel is closed
// (m's receiver parameter, resp. the wrapper's only free variable).
func c10BoundSame(d ssa.CallInstruction, onceWheel, closeWheel ssa.Value) bool {
	a := core.Args(d)
	mc, ok := core.Forward(a[len(a)-1]).(*ssa.MakeClosure)
	if !ok || len(mc.Bindings) != 1 {
		return false
	}
	fn, ok := mc.Fn.(*ssa.Function)
	if !ok {
		return false
	}
	cw := core.Strip(core.Forward(closeWheel))
	switch m := boundTarget(fn); {
	case m != nil:
		if len(m.Params) == 0 || m.Signature.Recv() == nil || c10WheelRoot(closeWheel) != ssa.Value(m.Params[0]) {
			return false
		}
	case inlinedBoundWrapper(fn):
		if len(fn.FreeVars) != 1 || cw != ssa.Value(fn.FreeVars[0]) {
			return false
		}
	default:
		return false
	}
	same, _ := c10SameWheel(mc.Bindings[0], onceWheel)
	return same
}

// c10Same: same wheel; when that cannot be told the obligation becomes unresolved (and the
// caller must not also report a violation).
func c10Same(o *core.O, p *core.Prog, at ssa.Instruction, a, b ssa.Value) bool {
	same, known := c10SameWheel(a, b)
	if !known {
		if c, isCall := at.(ssa.CallInstruction); isCall && c10BoundSame(c, a, b) {
			return true
		}
		o.Unres("%s: cannot tell whether %s and %s are the same wheel", p.InstrPos(at), core.Describe(a), core.Describe(b))
		return true
	}
	return same
}

// c10OtherUse returns a use of f (a function literal or a method) other than as the argument of
// sync.Once.Do: a direct call, go, defer, or the value handed elsewhere.
func c10OtherUse(p *core.Prog, pkg string, f *ssa.Function) ssa.Instruction {
	isDo := core.CallTo("(*sync.Once).Do")
	for _, g := range c10Funcs(p, pkg) {
		for _, b := range g.Blocks {
			for _, in := range b.Instrs {
				if c := core.AsCall(in); c != nil && !c.Common().IsInvoke() {
					if isDo(in) {
						continue
					}
					if calleeFn(c) == f {
						return in
					}
				}
				mc, ok := in.(*ssa.MakeClosure)
				if !ok || fnOfValue(mc) != f || mc.Referrers() == nil {
					continue
				}
				for _, r := range *mc.Referrers() {
					if _, dbg := r.(*ssa.DebugRef); dbg {
						continue
					}
					if isDo(r) {
						continue
					}
					if st, isStore := r.(*ssa.Store); isStore {
						// held in a local that is only handed to Do
						if al, isLocal := st.Addr.(*ssa.Alloc); isLocal && st.Val == ssa.Value(mc) && c10OnlyLoadedIntoDo(al, isDo) {
							continue
						}
					}
					return r
				}
			}
		}
	}
	return nil
}

func c10OnlyLoadedIntoDo(al *ssa.Alloc, isDo func(ssa.Instruction) bool) bool {
	if al.Referrers() == nil {
		return false
	}
	for _, r := range *al.Referrers() {
		switch x := r.(type) {
		case *ssa.Store, *ssa.DebugRef:
		case *ssa.UnOp:
			if x.Referrers() == nil {
				return false
			}
			for _, u := range *x.Referrers() {
				if _, dbg := u.(*ssa.DebugRef); !dbg && !isDo(u) {
					return false
				}
			}
		default:
			return false
		}
	}
	return true
}

func c10GuardedByCAS(p *core.Prog, pkg string, o *core.O, c ssa.CallInstruction, wheel ssa.Value) bool {
	f := c.Parent()
	for _, cas := range core.Calls(f, func(in ssa.Instruction) bool {
		cc := core.AsCall(in)
		return cc != nil && c10casOps[core.Short(core.CalleeName(cc))]
	}) {
		a := core.Args(cas)
		cv, isVal := cas.(ssa.Value)
		if len(a) != 3 || !isVal {
			continue
		}
		if core.Requires(f, core.Is(c), core.BoolVal(func(v ssa.Value) bool { return v == cv })) != nil {
			continue // the close is reachable without the swap having succeeded
		}
		fw := c10WheelOf(a[0])
		oldK, ok1 := c10ConstKey(a[1])
		newK, ok2 := c10ConstKey(a[2])
		switch {
		case fw == nil:
			o.Fail(p.InstrPos(cas), "the stop channel is closed behind a compare-and-swap of %s, which is not a field of the wheel: the flag is not per wheel", core.Describe(core.Forward(a[0])))
		case !c10Same(o, p, cas, fw, wheel):
			o.Fail(p.InstrPos(cas), "the swapped flag and the stop channel closed behind it belong to different wheels")
		case !ok1 || !ok2 || oldK == newK:
			o.Fail(p.InstrPos(cas), "the compare-and-swap guarding the close does not move the flag between two different constants: it can succeed again on the next Stop")
		default:
			tf := core.FieldAddrName(c10FieldAddrOf(a[0]))
			for _, w := range c10FieldWrites(p, pkg, tf, func(in ssa.Instruction) bool {
				cc := core.AsCall(in)
				if cc == nil || !c10casOps[core.Short(core.CalleeName(cc))] {
					return false
				}
				b := core.Args(cc)
				o2, okA := c10ConstKey(b[1])
				n2, okB := c10ConstKey(b[2])
				return okA && okB && o2 == oldK && n2 == newK
			}) {
				o.Fail(p.InstrPos(w), "%s, the flag guarding the close of the stop channel, is written here: once it is back at its initial value the next Stop closes the closed channel", tf)
			}
		}
		return true
	}
	return false
}

func c10GuardedByFlag(p *core.Prog, pkg string, la *core.LockAnalysis, o *core.O, c ssa.CallInstruction, wheel ssa.Value) bool {
	f := c.Parent()
	// candidate flags: boolean TimingWheel fields loaded in f
	seen := map[string]bool{}
	for _, b := range f.Blocks {
		for _, in := range b.Instrs {
			ld, ok := in.(*ssa.UnOp)
			if !ok || ld.Op != token.MUL {
				continue
			}
			fa, ok := ld.X.(*ssa.FieldAddr)
			if !ok {
				continue
			}
			tf := core.FieldAddrName(fa)
			if bt, isBasic := ld.Type().Underlying().(*types.Basic); !isBasic || bt.Kind() != types.Bool || !strings.HasPrefix(tf, "TimingWheel.") || seen[tf] {
				continue
			}
			seen[tf] = true
			isFlag := core.FieldLoad(tf)
			if core.Requires(f, core.Is(c), core.Not(core.BoolVal(isFlag))) != nil {
				continue // the close does not depend on this flag being false
			}
			if !c10Same(o, p, ld, fa.X, wheel) {
				o.Fail(p.InstrPos(ld), "the flag tested before the close (%s) and the stop channel belong to different wheels", tf)
				return true
			}
			// the flag is raised before the function returns, on every path from the test's false edge
			var sets []ssa.Instruction
			for _, st := range core.StoresToField(f, tf) {
				if k, isC := c10ConstKey(st.Val); isC && k == "true" {
					sets = append(sets, st)
				}
			}
			_, clear := core.EdgesOf(f, core.BoolVal(isFlag))
			var from []core.At
			for _, e := range clear {
				from = append(from, core.Head(e.To))
			}
			if w, leaks := core.Reach(core.Q{From: from, Target: core.IsReturn, Blocked: core.Is(sets...)}); leaks || len(from) == 0 {
				o.Fail(p.InstrPos(w), "%s closes the stop channel when %s is false but can return without setting it: the next Stop closes the closed channel", core.FuncName(f), tf)
				return true
			}
			// test and store under one lock
			common := false
			for _, st := range sets {
				hs, hl := la.Held(st), la.Held(ld)
				for k := range hs {
					if _, both := hl[k]; both {
						common = true
					}
				}
			}
			if !common {
				o.Fail(p.InstrPos(ld), "%s tests and sets %s without a lock held across both: two overlapping Stops both find the flag clear and both close the stop channel", core.FuncName(f), tf)
				return true
			}
			// never cleared, never written elsewhere without the protocol
			for _, w := range c10FieldWrites(p, pkg, tf, func(in ssa.Instruction) bool {
				st, isStore := in.(*ssa.Store)
				if !isStore {
					return false
				}
				k, isC := c10ConstKey(st.Val)
				return isC && k == "true"
			}) {
				o.Fail(p.InstrPos(w), "%s, the flag guarding the close of the stop channel, is cleared or handed on here", tf)
			}
			return true
		}
	}
	return false
}

var c10LockAnalyses = map[*core.Prog]*core.LockAnalysis{}

// c10LockGuardedField: every access of the struct field tf in the package, on a value that is not
// under construction in the accessing function, is made with one and the same lock held.
func c10LockGuardedField(p *core.Prog, pkg, tf string) bool {
	la := c10LockAnalyses[p]
	if la == nil {
		la = core.NewLockAnalysis(p, pkg)
		c10LockAnalyses[p] = la
	}
	var common map[string]bool
	n := 0
	for _, f := range c10Funcs(p, pkg) {
		for _, b := range f.Blocks {
			for _, in := range b.Instrs {
				fa, ok := in.(*ssa.FieldAddr)
				if !ok || core.FieldAddrName(fa) != tf {
					continue
				}
				if _, fresh := core.Forward(fa.X).(*ssa.Alloc); fresh {
					continue
				}
				n++
				held := map[string]bool{}
				for k := range la.Held(in) {
					held[k] = true
				}
				if common == nil {
					common = held
				} else {
					for k := range common {
						if !held[k] {
							delete(common, k)
						}
					}
				}
			}
		}
	}
	return n > 0 && len(common) > 0
}
