package props

import (
	"go/types"
	"strings"

	"godcheck/core"

	"golang.org/x/tools/go/ssa"
)

// Round 12 (seeded changes C05-xm1, C05-xm2).
func c05R12(r *core.Run) {
	p := r.P
	r.Explanation += " Round 12: the range validator of map-document values (lib/mapping: takes the document value as an interface, reads the declared Range and converts the value to float64 with a (float64, ok/err) converter) never returns a nil error on a path on which the conversion failed; the inherit merge (lib/mapping: stores the entries of one ranged-over document map into another document map) stores an entry only where the receiving map has no entry of that key."
	r.NotDecided += " Round 12, not decided: range validators that convert the value inline (no converter call: reported unresolved); nil errors returned from calls on the failed-conversion path; inherit merges that build a fresh map instead of updating the section's own map."

	r.Check("D4/K7/range-unconvertible-value-fails", "a function of lib/mapping that validates a document value (an interface-typed parameter) against the declared range - by role: it reads the Range option and converts the value with a converter returning (float64, bool) or (float64, error) - returns no nil error on any path on which the converter reported failure while a range is declared: a value that cannot be compared with the range is refused, not stored unchecked (clause 'a value outside its declared range= makes it fail': a map document carrying a value of a named numeric type, type Level int, is not recognised by the converter's type switch; returning nil there accepts 200 for range=[0:10])", func(o *core.O) {
		n := 0
		for _, f := range p.PkgFuncs("lib/mapping") {
			if f == nil || len(f.Blocks) == 0 {
				continue
			}
			res := f.Signature.Results()
			if res.Len() == 0 || !c05IsErrType(res.At(res.Len()-1).Type()) {
				continue
			}
			readsRange := false
			for _, b := range f.Blocks {
				for _, in := range b.Instrs {
					if fa, ok := in.(*ssa.FieldAddr); ok && strings.HasSuffix(core.FieldAddrName(fa), ".Range") {
						readsRange = true
					}
					if fl, ok := in.(*ssa.Field); ok {
						if _, fv := core.FieldOf(fl); fv != nil && fv.Name() == "Range" {
							readsRange = true
						}
					}
				}
			}
			if !readsRange {
				continue
			}
			isIfaceParam := func(v ssa.Value) bool {
				pa, ok := core.Forward(v).(*ssa.Parameter)
				if !ok {
					return false
				}
				_, ok = pa.Type().Underlying().(*types.Interface)
				return ok
			}
			for _, c := range core.Calls(f, func(in ssa.Instruction) bool { _, ok := in.(*ssa.Call); return ok }) {
				call, ok := c.(*ssa.Call)
				if !ok {
					continue
				}
				tup := call.Common().Signature().Results()
				if tup.Len() != 2 {
					continue
				}
				if b, ok := tup.At(0).Type().Underlying().(*types.Basic); !ok || b.Kind() != types.Float64 {
					continue
				}
				hasVal := false
				for _, a := range core.Args(call) {
					if isIfaceParam(a) {
						hasVal = true
					}
				}
				if !hasVal {
					continue
				}
				isConv := core.Is(call)
				var failEdges []core.Edge
				if b, ok := tup.At(1).Type().Underlying().(*types.Basic); ok && b.Kind() == types.Bool {
					_, failEdges = core.EdgesOf(f, core.BoolVal(func(v ssa.Value) bool { return core.IsResult(v, 1, isConv) }))
				} else if c05IsErrType(tup.At(1).Type()) {
					_, failEdges = core.EdgesOf(f, core.ErrNil(1, isConv))
				} else {
					continue
				}
				n++
				r.Fn(core.FuncName(f))
				if len(failEdges) == 0 {
					o.Unres("%s: the failure result of the value-to-float64 conversion is not tested by a branch the checker recognises", core.FuncName(f))
					continue
				}
				var from []core.At
				for _, e := range failEdges {
					from = append(from, core.Head(e.To))
				}
				reachable := func(in ssa.Instruction) bool {
					_, ok := core.Reach(core.Q{From: from, Target: core.Is(in)})
					return ok
				}
				for _, ret := range core.Returns(f) {
					if !reachable(ret) {
						continue
					}
					bad := false
					gxLeavesWithEdges(ret.Results[len(ret.Results)-1], func(leaf ssa.Value, edge *core.Edge) {
						if !core.IsNil(leaf) {
							return
						}
						if edge == nil {
							bad = true
							return
						}
						// the nil enters the merged result through this edge: is that edge on a failed-conversion path?
						for _, fe := range failEdges {
							if fe.From == edge.From && fe.To == edge.To {
								bad = true
								return
							}
						}
						if reachable(gxLast(edge.From)) {
							bad = true
						}
					})
					if bad {
						o.Fail(p.InstrPos(ret), "%s returns a nil error after the conversion of the document value to float64 failed: a value the converter does not recognise (a named numeric type in a map document) is accepted without being compared with the declared range, so an out-of-range value is stored", core.FuncName(f))
					}
				}
			}
		}
		o.Site(n, "lib/mapping: range validation of a document value through a float64 converter")
	})

	r.Check("D3/K10/inherit-keeps-section-entries", "where lib/mapping merges an enclosing section into a section of the document for the inherit option - by role: a loop ranges over one map[string]any and stores the ranged entry (same key, same value) into another map[string]any that is not freshly made - the store is made only on the branch on which a comma-ok lookup of that key in the receiving map reported the key absent: an entry the section writes itself, including an explicit null, is never replaced by the enclosing section's value (clauses 'every field equals the document's value exactly', 'optional absent fields stay zero' and 'a required field that is absent makes it fail': a member the inner section sets to null would silently take the outer section's value)", func(o *core.O) {
		n := 0
		for _, f := range p.PkgFuncs("lib/mapping") {
			if f == nil || len(f.Blocks) == 0 {
				continue
			}
			for _, in := range core.Instrs(f, func(in ssa.Instruction) bool { _, ok := in.(*ssa.MapUpdate); return ok }) {
				mu := in.(*ssa.MapUpdate)
				if !c05IsStringAnyMap(mu.Map.Type()) {
					continue
				}
				kn, ki := c05NextPart(mu.Key)
				vn, vi := c05NextPart(mu.Value)
				if kn == nil || kn != vn || ki != 1 || vi != 2 {
					continue
				}
				rng, ok := kn.Iter.(*ssa.Range)
				if !ok || !c05IsStringAnyMap(rng.X.Type()) || gxSame(rng.X, mu.Map) {
					continue
				}
				if _, fresh := core.Forward(mu.Map).(*ssa.MakeMap); fresh {
					continue // a fresh result map: nothing of the section can be overwritten by the first fill (not decided)
				}
				n++
				r.Fn(core.FuncName(f))
				absent := core.Not(core.BoolVal(func(v ssa.Value) bool {
					ex, ok := core.Forward(v).(*ssa.Extract)
					if !ok || ex.Index != 1 {
						return false
					}
					lk, ok := ex.Tuple.(*ssa.Lookup)
					return ok && lk.CommaOk && gxSame(lk.X, mu.Map) && gxSame(lk.Index, mu.Key)
				}))
				if core.EdgeCount(f, absent) == 0 {
					o.Fail(p.InstrPos(mu), "%s stores the enclosing section's entry into the section's map without asking whether the section has that key: every member the section sets itself is replaced by the inherited value", core.FuncName(f))
					continue
				}
				if w := core.Requires(f, core.Is(mu), absent); w != nil {
					o.Fail(p.InstrPos(mu), "%s stores the enclosing section's entry into the section's map also on a path on which the section has that key (e.g. set to null): the member takes the outer section's value instead of the document's own - an optional member is no longer zero, a required null member is accepted", core.FuncName(f))
				}
			}
		}
		o.Site(n, "lib/mapping: merge of an enclosing section's entries into a section's own map")
	})
}

func c05IsStringAnyMap(t types.Type) bool {
	m, ok := t.Underlying().(*types.Map)
	if !ok {
		return false
	}
	if b, ok := m.Key().Underlying().(*types.Basic); !ok || b.Kind() != types.String {
		return false
	}
	_, ok = m.Elem().Underlying().(*types.Interface)
	return ok
}

// c05NextPart: v is component idx of a map-range Next tuple.
func c05NextPart(v ssa.Value) (*ssa.Next, int) {
	ex, ok := core.Forward(v).(*ssa.Extract)
	if !ok {
		return nil, -1
	}
	nx, ok := ex.Tuple.(*ssa.Next)
	if !ok {
		return nil, -1
	}
	return nx, ex.Index
}
