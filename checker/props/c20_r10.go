package props

import (
	"go/constant"
	"go/token"
	"go/types"

	"godcheck/core"

	"golang.org/x/tools/go/ssa"
)

// Round 10 (seeding round 7, C20-vm2): the two error tests behind the style classifier
// were merged into one branch that returns the error of the FIRST classification – nil
// when only the 'designer' word is in mixed casing, so FileNamingFormat answers ("", nil).
// D3/K8/template-decomposition only demanded that the style is not USED once the
// classifier failed; nothing demanded that the failure is REPORTED.
//
// D3/K2/classifier-error-rejects walks every path of FileNamingFormat from its entry
// (a small path-sensitive evaluation of nil tests: φ-nodes are bound by the edge the path
// came in by, non-escaping local slots by the last store on the path, a branch on
// `x == nil` / `x != nil` records what it established about x and is decided when x is
// already known) and demands, at every return reached on a path that established
// "the classifier's error is non-nil", an error result that is non-nil on that path.
// How the tests are spelled (two ifs, one `||`, a switch, an `if err == nil { second
// classification }` chain with one test on the merged variable, a wrapped error, a
// constructor extracted and inlined by the loader) does not matter.

// c20NilKey identifies what a nil fact is about: result #idx of a call (whatever Extract
// instruction reads it), or the value itself.
func c20NilKey(v ssa.Value) any {
	if x, ok := v.(*ssa.Extract); ok {
		return [2]any{x.Tuple, x.Index}
	}
	return v
}

type c20NilState struct {
	env    map[ssa.Value]ssa.Value  // φ-nodes and loads of tracked slots: their value on this path
	mem    map[*ssa.Alloc]ssa.Value // tracked slots: last value stored on this path
	facts  map[any]bool             // c20NilKey -> true: non-nil, false: nil
	onPath map[*ssa.BasicBlock]bool
}

func (s *c20NilState) clone() *c20NilState {
	c := &c20NilState{env: map[ssa.Value]ssa.Value{}, mem: map[*ssa.Alloc]ssa.Value{}, facts: map[any]bool{}, onPath: map[*ssa.BasicBlock]bool{}}
	for k, v := range s.env {
		c.env[k] = v
	}
	for k, v := range s.mem {
		c.mem[k] = v
	}
	for k, v := range s.facts {
		c.facts[k] = v
	}
	for k, v := range s.onPath {
		c.onPath[k] = v
	}
	return c
}

type c20NilWalk struct {
	all     []*ssa.Function
	tracked map[*ssa.Alloc]bool
	steps   int
	over    bool
	atRet   func(ret *ssa.Return, s *c20NilState)
	at      ssa.Instruction // optional: atHit is called whenever a path executes this instruction
	atHit   func(s *c20NilState)
}

// c20TrackedSlots: local allocations that are only stored to and loaded from directly
// (no address taken, not captured): their content on a path is the last store on it.
func c20TrackedSlots(fn *ssa.Function) map[*ssa.Alloc]bool {
	out := map[*ssa.Alloc]bool{}
	for _, b := range fn.Blocks {
		for _, in := range b.Instrs {
			al, ok := in.(*ssa.Alloc)
			if !ok || al.Referrers() == nil {
				continue
			}
			good := true
			for _, ref := range *al.Referrers() {
				switch x := ref.(type) {
				case *ssa.Store:
					if x.Addr != ssa.Value(al) || x.Val == ssa.Value(al) {
						good = false
					}
				case *ssa.UnOp:
					if x.Op != token.MUL {
						good = false
					}
				case *ssa.DebugRef:
				default:
					good = false
				}
			}
			if good {
				out[al] = true
			}
		}
	}
	return out
}

func (w *c20NilWalk) resolve(s *c20NilState, v ssa.Value) ssa.Value {
	for i := 0; i < 16 && v != nil; i++ {
		if nv, ok := s.env[v]; ok && nv != v {
			v = nv
			continue
		}
		switch x := v.(type) {
		case *ssa.ChangeInterface:
			v = x.X
			continue
		case *ssa.ChangeType:
			v = x.X
			continue
		case *ssa.UnOp:
			if x.Op == token.MUL {
				if al, ok := x.X.(*ssa.Alloc); ok && w.tracked[al] {
					return v // a tracked load not executed on this path: unknown
				}
				if f := core.Forward(v); f != v {
					v = f
					continue
				}
			}
		}
		return v
	}
	return v
}

// nilness: is v known to be nil / non-nil on the path?
func (w *c20NilWalk) nilness(s *c20NilState, v ssa.Value) (known, nonNil bool) {
	v = w.resolve(s, v)
	if v == nil {
		return false, false
	}
	if core.IsNil(v) {
		return true, false
	}
	if f, ok := s.facts[c20NilKey(v)]; ok {
		return true, f
	}
	if _, ok := v.(*ssa.MakeInterface); ok {
		return true, true // an interface holding a concrete value is not the nil interface
	}
	if errNonNil(w.all, v) {
		return true, true
	}
	return false, false
}

// cond evaluates a branch condition on the path. When it cannot be decided and is a nil
// test of x, factOn is x (resolved) and nonNilIfTrue tells what the true edge establishes.
func (w *c20NilWalk) cond(s *c20NilState, v ssa.Value) (known, val bool, factOn ssa.Value, nonNilIfTrue bool) {
	v = w.resolve(s, v)
	switch x := v.(type) {
	case *ssa.Const:
		if x.Value != nil && x.Value.Kind() == constant.Bool {
			return true, constant.BoolVal(x.Value), nil, false
		}
	case *ssa.UnOp:
		if x.Op == token.NOT {
			k, b, f, nn := w.cond(s, x.X)
			return k, !b, f, !nn
		}
	case *ssa.BinOp:
		if x.Op != token.EQL && x.Op != token.NEQ {
			break
		}
		a, b := w.resolve(s, x.X), w.resolve(s, x.Y)
		var other ssa.Value
		switch {
		case core.IsNil(b):
			other = a
		case core.IsNil(a):
			other = b
		default:
			return false, false, nil, false
		}
		if !types.IsInterface(other.Type()) {
			if _, ptr := other.Type().Underlying().(*types.Pointer); !ptr {
				return false, false, nil, false
			}
		}
		if k, nn := w.nilness(s, other); k {
			return true, nn == (x.Op == token.NEQ), nil, false
		}
		return false, false, other, x.Op == token.NEQ
	}
	return false, false, nil, false
}

func (w *c20NilWalk) walk(b, pred *ssa.BasicBlock, s *c20NilState) {
	if w.over || s.onPath[b] {
		return // a block seen on this path: the loop's exits were followed from the first visit
	}
	w.steps++
	if w.steps > 20000 {
		w.over = true
		return
	}
	s.onPath[b] = true
	// φ-nodes read the values of the edge the path came in by, all at once
	if pred != nil {
		idx := -1
		for i, p := range b.Preds {
			if p == pred {
				idx = i
			}
		}
		nv := map[ssa.Value]ssa.Value{}
		for _, in := range b.Instrs {
			ph, ok := in.(*ssa.Phi)
			if !ok {
				break
			}
			if idx >= 0 && idx < len(ph.Edges) {
				nv[ph] = w.resolve(s, ph.Edges[idx])
			}
		}
		for k, v := range nv {
			s.env[k] = v
		}
	}
	for _, in := range b.Instrs {
		if w.at != nil && in == w.at {
			w.atHit(s)
		}
		switch x := in.(type) {
		case *ssa.Store:
			if al, ok := x.Addr.(*ssa.Alloc); ok && w.tracked[al] {
				s.mem[al] = w.resolve(s, x.Val)
			}
		case *ssa.UnOp:
			if x.Op != token.MUL {
				break
			}
			if al, ok := x.X.(*ssa.Alloc); ok && w.tracked[al] {
				if v, ok := s.mem[al]; ok {
					s.env[x] = v
				} else if nilable(x.Type()) {
					s.env[x] = ssa.NewConst(nil, x.Type()) // a fresh slot holds the zero value
				}
			}
		case *ssa.Return:
			if w.atRet != nil {
				w.atRet(x, s)
			}
			return
		case *ssa.If:
			known, val, factOn, nonNilIfTrue := w.cond(s, x.Cond)
			if known {
				next := b.Succs[0]
				if !val {
					next = b.Succs[1]
				}
				w.walk(next, b, s)
				return
			}
			t, f := s.clone(), s
			if factOn != nil {
				t.facts[c20NilKey(factOn)] = nonNilIfTrue
				f.facts[c20NilKey(factOn)] = !nonNilIfTrue
			}
			w.walk(b.Succs[0], b, t)
			w.walk(b.Succs[1], b, f)
			return
		case *ssa.Jump:
			w.walk(b.Succs[0], b, s)
			return
		}
	}
}

// c20UniqueOnPaths: the value v has whenever a path of fn executes `at` (φ-nodes bound by the
// path, infeasible nil-test combinations not followed), when that is the same non-φ value on
// every such path; nil otherwise.
func c20UniqueOnPaths(all []*ssa.Function, fn *ssa.Function, at ssa.Instruction, v ssa.Value) ssa.Value {
	var got ssa.Value
	n, same := 0, true
	w := &c20NilWalk{all: all, tracked: c20TrackedSlots(fn), at: at}
	w.atHit = func(s *c20NilState) {
		r := w.resolve(s, v)
		if n > 0 && r != got {
			same = false
		}
		got = r
		n++
	}
	w.walk(fn.Blocks[0], nil, &c20NilState{env: map[ssa.Value]ssa.Value{}, mem: map[*ssa.Alloc]ssa.Value{}, facts: map[any]bool{}, onPath: map[*ssa.BasicBlock]bool{}})
	if w.over || n == 0 || !same {
		return nil
	}
	if _, isPhi := got.(*ssa.Phi); isPhi {
		return nil
	}
	return got
}

// c20NilOnPaths: every path of fn that executes `at` has established that result #idx of
// call is nil (and at least one path gets there).
func c20NilOnPaths(all []*ssa.Function, fn *ssa.Function, at ssa.Instruction, call *ssa.Call, idx int) bool {
	n, good := 0, true
	w := &c20NilWalk{all: all, tracked: c20TrackedSlots(fn), at: at}
	w.atHit = func(s *c20NilState) {
		n++
		if nn, ok := s.facts[[2]any{ssa.Value(call), idx}]; !ok || nn {
			good = false
		}
	}
	w.walk(fn.Blocks[0], nil, &c20NilState{env: map[ssa.Value]ssa.Value{}, mem: map[*ssa.Alloc]ssa.Value{}, facts: map[any]bool{}, onPath: map[*ssa.BasicBlock]bool{}})
	return !w.over && n > 0 && good
}

func nilable(t types.Type) bool {
	switch t.Underlying().(type) {
	case *types.Interface, *types.Pointer, *types.Slice, *types.Map, *types.Chan, *types.Signature:
		return true
	}
	return false
}

func isErrorType(t types.Type) bool {
	return types.Identical(t, types.Universe.Lookup("error").Type())
}

// c20ClassifierByRole: the in-module functions FileNamingFormat calls that take one
// string and return (an integer-kinded style, error).
func c20ClassifierByRole(fn *ssa.Function, inMod map[*ssa.Function]bool) []*ssa.Function {
	var out []*ssa.Function
	seen := map[*ssa.Function]bool{}
	for _, c := range core.Calls(fn, func(in ssa.Instruction) bool { return core.AsCall(in) != nil }) {
		g := staticCallee(c)
		if g == nil || !inMod[g] || seen[g] {
			continue
		}
		seen[g] = true
		sig := g.Signature
		if sig.Recv() != nil || sig.Params().Len() != 1 || sig.Results().Len() != 2 {
			continue
		}
		if b, ok := sig.Params().At(0).Type().Underlying().(*types.Basic); !ok || b.Info()&types.IsString == 0 {
			continue
		}
		if b, ok := sig.Results().At(0).Type().Underlying().(*types.Basic); !ok || b.Info()&types.IsInteger == 0 {
			continue
		}
		if !isErrorType(sig.Results().At(1).Type()) {
			continue
		}
		out = append(out, g)
	}
	return out
}

func c20R10(r *core.Run, ext *core.Ext, fnFormat, fnGetStyle *ssa.Function) {
	p := r.P
	all := ext.AllFuncs()
	inMod := map[*ssa.Function]bool{}
	for _, f := range all {
		inMod[f] = true
	}
	r.Check("D3/K2/classifier-error-rejects", "on every path of FileNamingFormat on which the style classifier's error (for the 'go' word or for the 'designer' word) was found non-nil, the function returns, and the error it returns is non-nil on that path: the classifier's own error, another error known non-nil on the path, or a freshly made one – decided by following the nil tests path by path, however they are spelled [clause: templates with a word in mixed casing are rejected with an error; a branch that tests the second classification but returns the first one's error answers (\"\", nil) for go_desIgner]", func(o *core.O) {
		if !o.Need(fnFormat != nil, "format.FileNamingFormat") {
			return
		}
		var classifiers []*ssa.Function
		if fnGetStyle != nil {
			classifiers = []*ssa.Function{fnGetStyle}
		} else {
			classifiers = c20ClassifierByRole(fnFormat, inMod)
		}
		if !o.Need(len(classifiers) > 0, "the style classifier FileNamingFormat calls (one string -> style, error)") {
			return
		}
		res := fnFormat.Signature.Results()
		if !o.Need(res.Len() > 0 && isErrorType(res.At(res.Len()-1).Type()), "an error as last result of FileNamingFormat") {
			return
		}
		errAt := res.Len() - 1
		type cls struct {
			call *ssa.Call
			key  any
		}
		var calls []cls
		for _, c := range core.Calls(fnFormat, func(in ssa.Instruction) bool {
			c, ok := in.(*ssa.Call)
			if !ok || staticCallee(c) == nil {
				return false
			}
			for _, g := range classifiers {
				if staticCallee(c) == g {
					return true
				}
			}
			return false
		}) {
			call := c.(*ssa.Call)
			n := call.Call.Signature().Results().Len()
			if n < 2 || !isErrorType(call.Call.Signature().Results().At(n-1).Type()) {
				continue
			}
			calls = append(calls, cls{call, [2]any{ssa.Value(call), n - 1}})
		}
		if !o.Need(len(calls) > 0, "calls of the style classifier in FileNamingFormat") {
			return
		}
		r.Fn(core.FuncName(fnFormat))
		type pair struct {
			ret  *ssa.Return
			call *ssa.Call
		}
		rejected := map[*ssa.Call]bool{}
		reported := map[pair]bool{}
		w := &c20NilWalk{all: all, tracked: c20TrackedSlots(fnFormat)}
		w.atRet = func(ret *ssa.Return, s *c20NilState) {
			if errAt >= len(ret.Results) {
				return
			}
			for _, c := range calls {
				if nn, ok := s.facts[c.key]; !ok || !nn {
					continue
				}
				rejected[c.call] = true
				if known, nonNil := w.nilness(s, ret.Results[errAt]); known && nonNil {
					continue
				}
				if reported[pair{ret, c.call}] {
					continue
				}
				reported[pair{ret, c.call}] = true
				what := "is not known to be non-nil there"
				if known, _ := w.nilness(s, ret.Results[errAt]); known {
					what = "is nil there"
				}
				o.Fail(p.InstrPos(ret), "FileNamingFormat: reached on a path on which %s reported an error (at %s), this return's error %s %s: a template with that word in mixed casing is answered with a nil error and an empty or wrong file name", core.FuncName(staticCallee(c.call)), p.InstrPos(c.call), core.Describe(w.resolve(s, ret.Results[errAt])), what)
			}
		}
		s0 := &c20NilState{env: map[ssa.Value]ssa.Value{}, mem: map[*ssa.Alloc]ssa.Value{}, facts: map[any]bool{}, onPath: map[*ssa.BasicBlock]bool{}}
		w.walk(fnFormat.Blocks[0], nil, s0)
		if w.over {
			o.Unres("FileNamingFormat has too many paths to follow (more than 20000 steps)")
			return
		}
		for _, c := range calls {
			// a classification whose error is never tested and returned from: D3/K8/template-decomposition
			// (style used although the classifier failed) decides that case; nothing to count here
			if rejected[c.call] {
				o.Site(1, p.InstrPos(c.call))
			}
		}
	})
}
