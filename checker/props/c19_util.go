package props

import (
	"go/token"
	"go/types"
	"strings"

	"godcheck/core"

	"golang.org/x/tools/go/ssa"
)

// Helpers of the C19 table added in robustness round 4.
//
//  1. c19RequiresNil: the guard "target only after v == nil" decided on (block,
//     predecessor) states, so that an error that travels through a φ-node before
//     it is tested (`if err := step(); err != nil { return err }` with step
//     inlined: err = φ(copyErr, closeErr)) is attributed to the operand that
//     entered the φ on that path.
//  2. c19Marks: what a function records in a result map of its own, directly or
//     through a function literal of its own that stores its parameter into the
//     captured map (`r.each(func(f string) { outdated[f] = … })`).
//  3. c19FuncOf / c19Resolve: the function a function value denotes and the value
//     a captured cell holds, through by-reference captures with a single store
//     and bound-method wrappers.

// ---------------------------------------------------------------- 1. nil guards through φ

// c19NilTest: block b ends in `if x == nil` / `if x != nil` (under any number of
// `!`); it returns x and the index of the successor taken when x is nil.
func c19NilTest(b *ssa.BasicBlock) (x ssa.Value, nilSucc int, ok bool) {
	if len(b.Instrs) == 0 {
		return nil, 0, false
	}
	iff, isIf := b.Instrs[len(b.Instrs)-1].(*ssa.If)
	if !isIf {
		return nil, 0, false
	}
	v := iff.Cond
	flip := false
	for {
		if u, isNot := v.(*ssa.UnOp); isNot && u.Op == token.NOT {
			v, flip = u.X, !flip
			continue
		}
		break
	}
	bo, isBin := v.(*ssa.BinOp)
	if !isBin || (bo.Op != token.EQL && bo.Op != token.NEQ) {
		return nil, 0, false
	}
	switch {
	case core.IsNil(bo.Y) && !core.IsNil(bo.X):
		x = bo.X
	case core.IsNil(bo.X) && !core.IsNil(bo.Y):
		x = bo.Y
	default:
		return nil, 0, false
	}
	nilOnTrue := bo.Op == token.EQL
	if flip {
		nilOnTrue = !nilOnTrue
	}
	if nilOnTrue {
		return x, 0, true
	}
	return x, 1, true
}

// c19KnownNonNil: at the end of block at, the SSA value u is known to be non-nil:
// at is dominated by the non-nil successor of a test of u that has no other way in.
func c19KnownNonNil(f *ssa.Function, u ssa.Value, at *ssa.BasicBlock) bool {
	for _, c := range f.Blocks {
		x, ns, ok := c19NilTest(c)
		if !ok || x != u {
			continue
		}
		y := c.Succs[1-ns]
		if len(y.Preds) == 1 && y != c.Succs[ns] && y.Dominates(at) {
			return true
		}
	}
	return false
}

// c19PhiOperand: the operand of φ-node x of block b on the edge pred → b
// (nil when x is no φ of b or the edge is not unique).
func c19PhiOperand(x ssa.Value, b, pred *ssa.BasicBlock) ssa.Value {
	phi, ok := x.(*ssa.Phi)
	if !ok || phi.Block() != b || pred == nil {
		return nil
	}
	idx, n := -1, 0
	for i, q := range b.Preds {
		if q == pred {
			idx, n = i, n+1
		}
	}
	if n != 1 || idx >= len(phi.Edges) {
		return nil
	}
	return phi.Edges[idx]
}

// c19RequiresNil reports a target instruction of f that is reachable from the entry
// on a path on which `v == nil` was not established for a value v matched by isErr
// (nil: every path to a target establishes it). Like core.Requires with the atom
// Cmp(EQL, isErr, IsNil), but decided per (block, predecessor): when a block tests a
// φ-node of its own against nil, the operand that entered the φ on the path decides
// – the nil successor establishes `operand == nil`, it is infeasible when the operand
// is known to be non-nil where it entered (an SSA value never changes), and the
// non-nil successor is infeasible for the operand nil. Boolean φ-conditions with a
// constant operand are followed on the feasible side only (as core.Reach does).
func c19RequiresNil(f *ssa.Function, target func(ssa.Instruction) bool, isErr func(ssa.Value) bool) ssa.Instruction {
	holds, _ := core.EdgesOf(f, core.Cmp(token.EQL, isErr, core.IsNil))
	cut := core.CutSet(holds)
	type state struct{ b, pred *ssa.BasicBlock }
	seen := map[state]bool{}
	work := []state{{f.Blocks[0], nil}}
	for len(work) > 0 {
		st := work[len(work)-1]
		work = work[:len(work)-1]
		if seen[st] {
			continue
		}
		seen[st] = true
		for _, in := range st.b.Instrs {
			if target(in) {
				return in
			}
		}
		x, nilSucc, isNilTest := c19NilTest(st.b)
		var op ssa.Value
		if isNilTest {
			op = c19PhiOperand(x, st.b, st.pred)
		}
		boolCls := c19BoolPhiClass(st.b, st.pred)
		for si, s := range st.b.Succs {
			if cut(core.Edge{From: st.b, To: s}) {
				continue
			}
			if boolCls != 0 && len(st.b.Succs) == 2 && ((boolCls == 1 && si == 1) || (boolCls == 2 && si == 0)) {
				continue
			}
			if op != nil && len(st.b.Succs) == 2 {
				if si == nilSucc {
					if isErr(op) || c19KnownNonNil(f, op, st.pred) {
						continue // establishes the atom / cannot happen
					}
				} else if core.IsNil(op) {
					continue
				}
			}
			work = append(work, state{s, st.b})
		}
	}
	return nil
}

// c19Reach is core.Reach decided per (block, predecessor) like c19RequiresNil: a block
// that tests a φ-node of its own against nil is left only on the side the operand that
// entered the φ on this path allows (operand nil: the nil side; operand known to be
// non-nil where it entered: the other side) – the shape `v, err := step(); if err != nil`
// has once step, with its `return nil, err` / `return v, nil`, is inlined. Everything
// else is followed as core.Reach follows it, so only infeasible paths are dropped.
func c19Reach(f *ssa.Function, from []core.At, target, blocked func(ssa.Instruction) bool, cut func(core.Edge) bool) ssa.Instruction {
	type state struct {
		at   core.At
		pred *ssa.BasicBlock
	}
	type key struct{ b, pred *ssa.BasicBlock }
	seen := map[key]bool{}
	var work []state
	for _, a := range from {
		work = append(work, state{a, nil})
	}
	for len(work) > 0 {
		st := work[len(work)-1]
		work = work[:len(work)-1]
		b := st.at.B
		if st.at.Idx == 0 {
			if seen[key{b, st.pred}] {
				continue
			}
			seen[key{b, st.pred}] = true
		}
		stopped := false
		for i := st.at.Idx; i < len(b.Instrs); i++ {
			in := b.Instrs[i]
			if blocked != nil && blocked(in) {
				stopped = true
				break
			}
			if target != nil && target(in) {
				return in
			}
		}
		if stopped {
			continue
		}
		x, nilSucc, isNilTest := c19NilTest(b)
		var op ssa.Value
		if isNilTest {
			op = c19PhiOperand(x, b, st.pred)
		}
		boolCls := c19BoolPhiClass(b, st.pred)
		for si, s := range b.Succs {
			if cut != nil && cut(core.Edge{From: b, To: s}) {
				continue
			}
			if boolCls != 0 && len(b.Succs) == 2 && ((boolCls == 1 && si == 1) || (boolCls == 2 && si == 0)) {
				continue
			}
			if op != nil && len(b.Succs) == 2 {
				if si == nilSucc {
					if c19KnownNonNil(f, op, st.pred) {
						continue
					}
				} else if core.IsNil(op) {
					continue
				}
			}
			work = append(work, state{core.At{B: s, Idx: 0}, b})
		}
	}
	return nil
}

// c19NonEmpty is the atom "the string matched by isStr is not empty" in any integer
// spelling of the length test: with n = len(s) ≥ 0 an integer, `n > 0`, `0 < n`, `n >= 1`,
// `1 <= n`, `n != 0` establish it on the true edge, `n <= 0`, `n < 1`, `n == 0` (and the
// flipped operand orders) on the false edge; so do `s != ""` / `s == ""`. Nothing weaker or
// stronger matches (`n > 1` does not: its false edge would not mean "empty").
func c19NonEmpty(isStr func(ssa.Value) bool) core.Atom {
	a := &core.Alg{Name: func(v ssa.Value) string {
		if isStr(v) {
			return "s"
		}
		return ""
	}}
	n := core.ParsePoly("len(s)")
	n1 := core.ParsePoly("len(s) - 1")
	isEmptyStr := func(v ssa.Value) bool { c, ok := core.ConstString(v); return ok && c == "" }
	flip := map[token.Token]token.Token{token.GTR: token.LSS, token.LSS: token.GTR, token.GEQ: token.LEQ, token.LEQ: token.GEQ, token.EQL: token.EQL, token.NEQ: token.NEQ}
	return func(v ssa.Value) (bool, bool) {
		b, ok := v.(*ssa.BinOp)
		if !ok {
			return false, false
		}
		if _, known := flip[b.Op]; !known {
			return false, false
		}
		if b.Op == token.EQL || b.Op == token.NEQ {
			if (isStr(core.Forward(b.X)) && isEmptyStr(b.Y)) || (isStr(core.Forward(b.Y)) && isEmptyStr(b.X)) {
				return true, b.Op == token.NEQ
			}
		}
		bt, isBasic := b.X.Type().Underlying().(*types.Basic)
		if !isBasic || bt.Info()&types.IsInteger == 0 {
			return false, false
		}
		d := a.Norm(b.X).Sub(a.Norm(b.Y))
		op := b.Op
		one := false
		switch {
		case d.Equal(n):
		case d.Equal(n.Neg()):
			op = flip[op]
		case d.Equal(n1):
			one = true
		case d.Equal(n1.Neg()):
			one, op = true, flip[op]
		default:
			return false, false
		}
		// now: len(s) op 0, or len(s) − 1 op 0
		if one {
			switch op {
			case token.GEQ:
				return true, true
			case token.LSS:
				return true, false
			}
			return false, false
		}
		switch op {
		case token.GTR, token.NEQ:
			return true, true
		case token.LEQ, token.EQL:
			return true, false
		}
		return false, false
	}
}

// c19BoolPhiClass: b ends in `if φ` (under `!`) with φ a boolean φ-node of b whose
// operand on the edge from pred is a constant: 1 = condition true, 2 = false, 0 = unknown.
func c19BoolPhiClass(b, pred *ssa.BasicBlock) int {
	if len(b.Instrs) == 0 || pred == nil {
		return 0
	}
	iff, ok := b.Instrs[len(b.Instrs)-1].(*ssa.If)
	if !ok {
		return 0
	}
	v := iff.Cond
	flip := false
	for {
		if u, isNot := v.(*ssa.UnOp); isNot && u.Op == token.NOT {
			v, flip = u.X, !flip
			continue
		}
		break
	}
	op := c19PhiOperand(v, b, pred)
	if op == nil {
		return 0
	}
	c, ok := op.(*ssa.Const)
	if !ok || c.Value == nil {
		return 0
	}
	val := c.Value.String() == "true"
	if flip {
		val = !val
	}
	if val {
		return 1
	}
	return 2
}

// ---------------------------------------------------------------- 2. marks

// c19Mark is one place where f records a name in a map it created itself.
type c19Mark struct {
	site ssa.Instruction // the instruction of f at which the name is recorded
	key  ssa.Value       // the recorded name as a value of f (nil: not a value of f)
}

// c19LocalMap: v denotes a map created in f – the MakeMap itself or a load of a
// local variable of f whose only store is one.
func c19LocalMap(f *ssa.Function, v ssa.Value) bool {
	if mk, ok := v.(*ssa.MakeMap); ok {
		return mk.Parent() == f
	}
	u, ok := v.(*ssa.UnOp)
	if !ok || u.Op != token.MUL {
		return false
	}
	al, ok := u.X.(*ssa.Alloc)
	if !ok || al.Parent() != f {
		return false
	}
	return c19CellMakeMap(al) != nil
}

// c19CellMakeMap: the MakeMap that is the only value ever stored into the local
// cell al in its own function (closures capturing the cell must not store to it).
func c19CellMakeMap(al *ssa.Alloc) *ssa.MakeMap {
	var mk *ssa.MakeMap
	n := 0
	for _, r := range *al.Referrers() {
		switch x := r.(type) {
		case *ssa.Store:
			if x.Addr != ssa.Value(al) {
				return nil
			}
			n++
			mk, _ = x.Val.(*ssa.MakeMap)
		case *ssa.MakeClosure:
			g, _ := x.Fn.(*ssa.Function)
			if g == nil {
				return nil
			}
			for i, b := range x.Bindings {
				if b != ssa.Value(al) || i >= len(g.FreeVars) {
					continue
				}
				for _, fr := range *g.FreeVars[i].Referrers() {
					if u, ok := fr.(*ssa.UnOp); !ok || u.Op != token.MUL {
						return nil // written, or handed on, by the closure
					}
				}
			}
		case *ssa.UnOp, *ssa.DebugRef:
		default:
			return nil
		}
	}
	if n != 1 {
		return nil
	}
	return mk
}

// c19Marks lists where f records a name in a map of its own: map updates in f, and
// calls in f of a function literal of f whose body stores into such a map that it
// captured (the key it stores must derive from one of its parameters: the name is then
// the corresponding argument of the call). ok=false when a literal stores something else.
func c19Marks(f *ssa.Function) (marks []c19Mark, ok bool) {
	ok = true
	for _, in := range core.Instrs(f, func(in ssa.Instruction) bool { _, is := in.(*ssa.MapUpdate); return is }) {
		mu := in.(*ssa.MapUpdate)
		if c19LocalMap(f, mu.Map) {
			marks = append(marks, c19Mark{in, mu.Key})
		}
	}
	// function literals of f that store into a captured map of f
	type lit struct {
		params []int // index of the parameter used as key, per map update
	}
	lits := map[*ssa.Function]*lit{}
	for _, in := range core.Instrs(f, func(in ssa.Instruction) bool { _, is := in.(*ssa.MakeClosure); return is }) {
		mc := in.(*ssa.MakeClosure)
		g, _ := mc.Fn.(*ssa.Function)
		if g == nil || g.Parent() != f || g.Blocks == nil {
			continue
		}
		for _, gin := range core.Instrs(g, func(in ssa.Instruction) bool { _, is := in.(*ssa.MapUpdate); return is }) {
			mu := gin.(*ssa.MapUpdate)
			u, isLoad := mu.Map.(*ssa.UnOp)
			if !isLoad || u.Op != token.MUL {
				continue
			}
			fv, isFV := u.X.(*ssa.FreeVar)
			if !isFV {
				continue
			}
			idx := -1
			for i, x := range g.FreeVars {
				if x == fv {
					idx = i
				}
			}
			if idx < 0 || idx >= len(mc.Bindings) {
				continue
			}
			al, isAl := mc.Bindings[idx].(*ssa.Alloc)
			if !isAl || al.Parent() != f || c19CellMakeMap(al) == nil {
				continue
			}
			l := lits[g]
			if l == nil {
				l = &lit{}
				lits[g] = l
			}
			pi := -1
			for i, pa := range g.Params {
				pa := pa
				if core.DependsOn(mu.Key, func(v ssa.Value) bool { return v == ssa.Value(pa) || core.IsParam(pa.Name())(v) }) {
					pi = i
				}
			}
			l.params = append(l.params, pi)
		}
	}
	if len(lits) == 0 {
		return marks, ok
	}
	for _, in := range core.Instrs(f, func(in ssa.Instruction) bool { return core.AsCall(in) != nil }) {
		c := core.AsCall(in)
		if c.Common().IsInvoke() {
			continue
		}
		mc, isMC := core.Forward(c.Common().Value).(*ssa.MakeClosure)
		if !isMC {
			continue
		}
		g, _ := mc.Fn.(*ssa.Function)
		l := lits[g]
		if l == nil {
			continue
		}
		for _, pi := range l.params {
			if pi < 0 || pi >= len(c.Common().Args) {
				marks = append(marks, c19Mark{in, nil})
				ok = false
				continue
			}
			marks = append(marks, c19Mark{in, c.Common().Args[pi]})
		}
	}
	return marks, ok
}

// ---------------------------------------------------------------- 3. function values and captured cells

// c19WrapperTarget: the declared method behind a bound-method wrapper / thunk that
// still calls it (nil for every other function, and for a wrapper a program variant
// has inlined the method into).
func c19WrapperTarget(w *ssa.Function) *ssa.Function {
	if w == nil || w.Synthetic == "" || strings.HasPrefix(w.Synthetic, "godcheck") || w.Object() == nil {
		return nil
	}
	tf, ok := w.Object().(*types.Func)
	if !ok {
		return nil
	}
	t := w.Prog.FuncValue(tf)
	if t == nil {
		return nil
	}
	for _, b := range w.Blocks {
		for _, in := range b.Instrs {
			if c, ok := in.(ssa.CallInstruction); ok && c.Common().StaticCallee() == t {
				return t
			}
		}
	}
	return nil
}

// c19Resolve follows a value of a function literal back to what it denotes in the
// enclosing function: a load of a captured variable is the single value stored into
// the captured cell (the variable is then never re-assigned), conversions that keep
// the value are dropped. sites lists the MakeClosure instructions creating closures.
func c19Resolve(v ssa.Value, sites map[*ssa.Function][]*ssa.MakeClosure) ssa.Value {
	for i := 0; i < 6; i++ {
		v = core.Strip(core.Forward(v))
		u, ok := v.(*ssa.UnOp)
		if !ok || u.Op != token.MUL {
			return v
		}
		var cell ssa.Value
		switch x := u.X.(type) {
		case *ssa.FreeVar:
			g := x.Parent()
			idx := -1
			for j, fv := range g.FreeVars {
				if fv == x {
					idx = j
				}
			}
			for _, mc := range sites[g] {
				if idx < 0 || idx >= len(mc.Bindings) {
					return v
				}
				if cell != nil && cell != mc.Bindings[idx] {
					return v
				}
				cell = mc.Bindings[idx]
			}
		case *ssa.Alloc:
			cell = x
		}
		al, ok := cell.(*ssa.Alloc)
		if !ok {
			return v
		}
		var st *ssa.Store
		n := 0
		for _, r := range *al.Referrers() {
			switch y := r.(type) {
			case *ssa.Store:
				if y.Addr == ssa.Value(al) {
					st, n = y, n+1
				} else {
					return v
				}
			case *ssa.MakeClosure:
				g, _ := y.Fn.(*ssa.Function)
				if g == nil {
					return v
				}
				for j, b := range y.Bindings {
					if b != ssa.Value(al) || j >= len(g.FreeVars) {
						continue
					}
					for _, fr := range *g.FreeVars[j].Referrers() {
						if l, isLoad := fr.(*ssa.UnOp); !isLoad || l.Op != token.MUL {
							return v
						}
					}
				}
			case *ssa.UnOp, *ssa.DebugRef:
			default:
				return v
			}
		}
		if n != 1 {
			return v
		}
		v = st.Val
	}
	return v
}

// c19ClosureSites indexes the MakeClosure instructions of fs (and of the
// bound-method wrappers they create) by the function they instantiate.
func c19ClosureSites(fs []*ssa.Function) (sites map[*ssa.Function][]*ssa.MakeClosure, wrappers []*ssa.Function) {
	sites = map[*ssa.Function][]*ssa.MakeClosure{}
	seen := map[*ssa.Function]bool{}
	for _, f := range fs {
		seen[f] = true
	}
	var scan func(f *ssa.Function)
	scan = func(f *ssa.Function) {
		for _, b := range f.Blocks {
			for _, in := range b.Instrs {
				mc, ok := in.(*ssa.MakeClosure)
				if !ok {
					continue
				}
				g, _ := mc.Fn.(*ssa.Function)
				if g == nil {
					continue
				}
				sites[g] = append(sites[g], mc)
				if !seen[g] && g.Blocks != nil {
					seen[g] = true
					wrappers = append(wrappers, g)
					scan(g)
				}
			}
		}
	}
	for _, f := range fs {
		scan(f)
	}
	return sites, wrappers
}

// c19FuncOf: the function whose body runs when the function value v is called: a
// function, a closure, or the method behind a bound-method value `x.m` (the
// wrapper itself when a program variant has inlined the method into it).
func c19FuncOf(v ssa.Value, sites map[*ssa.Function][]*ssa.MakeClosure) *ssa.Function {
	v = c19Resolve(v, sites)
	var g *ssa.Function
	switch x := v.(type) {
	case *ssa.Function:
		g = x
	case *ssa.MakeClosure:
		g, _ = x.Fn.(*ssa.Function)
	default:
		if h, _ := gxClosureOf(v); h != nil {
			g = h
		}
	}
	if g == nil {
		return nil
	}
	if t := c19WrapperTarget(g); t != nil {
		return t
	}
	return g
}

// c19Canon: a bound-method wrapper and the method it was generated for are one
// place in the source (a program variant may have inlined the method into the wrapper).
func c19Canon(f *ssa.Function) *ssa.Function {
	if f == nil || f.Synthetic == "" || strings.HasPrefix(f.Synthetic, "godcheck") || f.Object() == nil {
		return f
	}
	if tf, ok := f.Object().(*types.Func); ok {
		if t := f.Prog.FuncValue(tf); t != nil {
			return t
		}
	}
	return f
}

// ---------------------------------------------------------------- 4. the list filtered from the matches

// c19FilteredLists: the values of f that denote "the matches with some entries dropped": a φ
// (loop-carried list) all of whose incoming lists are empty (nil, make(…, 0), x[:0]) or appends to
// such a list, with at least one appended element read from the matches; or the []string result of
// an in-package function that is handed the matches.
func c19FilteredLists(f *ssa.Function, isMatches func(ssa.Value) bool) map[ssa.Value]bool {
	out := map[ssa.Value]bool{}
	isStrings := func(t types.Type) bool {
		s, ok := t.Underlying().(*types.Slice)
		if !ok {
			return false
		}
		b, ok := s.Elem().Underlying().(*types.Basic)
		return ok && b.Kind() == types.String
	}
	fromMatches := func(v ssa.Value) bool {
		return core.DependsOn(v, func(x ssa.Value) bool {
			u, ok := x.(*ssa.UnOp)
			if !ok || u.Op != token.MUL {
				return false
			}
			ia, ok := u.X.(*ssa.IndexAddr)
			return ok && core.DependsOn(ia.X, isMatches)
		})
	}
	for _, b := range f.Blocks {
		for _, in := range b.Instrs {
			switch x := in.(type) {
			case *ssa.Phi:
				if !isStrings(x.Type()) {
					continue
				}
				seen := map[ssa.Value]bool{}
				ok, appended := true, false
				var walk func(v ssa.Value)
				walk = func(v ssa.Value) {
					v = core.Forward(v)
					if !ok || seen[v] {
						return
					}
					seen[v] = true
					switch y := v.(type) {
					case *ssa.Phi:
						for _, e := range y.Edges {
							walk(e)
						}
					case *ssa.Const:
						if !y.IsNil() {
							ok = false
						}
					case *ssa.MakeSlice:
						if n, isC := core.ConstInt(y.Len); !isC || n != 0 {
							ok = false
						}
					case *ssa.Slice:
						if y.High == nil {
							ok = false
						} else if n, isC := core.ConstInt(y.High); !isC || n != 0 {
							ok = false
						}
					case *ssa.Call:
						if core.CalleeName(y) != "builtin:append" || len(y.Call.Args) != 2 {
							ok = false
							return
						}
						if fromMatches(y.Call.Args[1]) {
							appended = true
						}
						walk(y.Call.Args[0])
					default:
						ok = false
					}
				}
				walk(x)
				if ok && appended {
					out[x] = true
				}
			case *ssa.Call:
				callee := x.Call.StaticCallee()
				if callee == nil || callee.Blocks == nil || callee.Pkg != f.Pkg || !isStrings(x.Type()) {
					continue
				}
				for _, a := range x.Call.Args {
					if isMatches(core.Forward(a)) {
						out[x] = true
					}
				}
			}
		}
	}
	return out
}
