package props

import (
	"fmt"
	"go/constant"
	"go/token"
	"go/types"
	"math"

	"godcheck/core"

	"golang.org/x/tools/go/ssa"
)

// Round 9 (three genuine defects of the wrapper repaired: TTL sentinels, Ping
// and the breaker, ScriptLoad outside the breaker).
//
// The Duration → whole-seconds conversion of a reply (TTLCtx) is decided by
// EVALUATION, not by the spelling of one store: go-redis hands the two sentinel
// replies of TTL/PTTL through as time.Duration(-1) and time.Duration(-2) (they are
// NOT multiplied by the precision, command.go DurationCmd.readReply), every real
// lifetime as n·time.Second. "The same result after the documented conversion" is
// therefore: a non-negative reply divided down to seconds, a negative reply passed
// through unchanged. The part of the command closure after the command is
// interpreted for a handful of concrete replies on every path on which the
// command's error is nil; whatever the wrapper's result holds at the closure's
// return must be that value.

type c12val struct {
	k int // 0 unknown, 1 int, 2 float, 3 bool, 4 string
	i int64
	f float64
	b bool
	s string
}

func (v c12val) String() string {
	switch v.k {
	case 1:
		return fmt.Sprint(v.i)
	case 2:
		return fmt.Sprint(v.f)
	case 3:
		return fmt.Sprint(v.b)
	case 4:
		return fmt.Sprintf("%q", v.s)
	}
	return "a value that could not be evaluated"
}

// c12replySamples: replies of a Duration command and the whole seconds they stand for.
var c12replySamples = []struct {
	reply, want int64
	what        string
}{
	{-2, -2, "-2ns (the key does not exist)"},
	{-1, -1, "-1ns (the key has no expiry)"},
	{0, 0, "0s"},
	{1_000_000_000, 1, "1s"},
	{1_999_999_999, 1, "1.999999999s"},
	{90_000_000_000, 90, "1m30s"},
	{86_400_000_000_000, 86_400, "24h"},
}

// c12interp walks the code after the command for one concrete reply.
type c12interp struct {
	x        *c12wrap
	f        *ssa.Function
	isReply  func(ssa.Value) bool
	reply    int64
	replyVal *c12val            // a reply that is not an integer (round 11: the string reply of PING)
	stopAt   ssa.Instruction    // a path ends (without a value) when it reaches this instruction (round 11: the paths around the command)
	onError  bool               // walk the paths on which the command's error is non-nil instead (round 11)
	errFails map[core.Edge]bool // edges establishing "the command's error is non-nil"
	errHolds map[core.Edge]bool // edges establishing "the command's error is nil"
	sinkCell *ssa.Alloc         // closure form: the named-result cell
	retIdx   int                // direct form: index of the returned value
	out      []c12val           // value of the result at every return reached
	stale    bool               // some return was reached with the result never assigned
	steps    int
	gaveUp   string
}

func (it *c12interp) eval(v ssa.Value, env map[ssa.Value]c12val) c12val {
	if it.isReply(v) {
		if it.replyVal != nil {
			return *it.replyVal
		}
		return c12val{k: 1, i: it.reply}
	}
	if r, ok := env[v]; ok {
		return r
	}
	wrapInt := func(n int64, t types.Type) int64 {
		b, ok := t.Underlying().(*types.Basic)
		if !ok {
			return n
		}
		switch b.Kind() {
		case types.Int8:
			return int64(int8(n))
		case types.Int16:
			return int64(int16(n))
		case types.Int32:
			return int64(int32(n))
		case types.Uint8:
			return int64(uint8(n))
		case types.Uint16:
			return int64(uint16(n))
		case types.Uint32:
			return int64(uint32(n))
		}
		return n
	}
	switch x := v.(type) {
	case *ssa.Const:
		if x.Value == nil {
			return c12val{}
		}
		switch x.Value.Kind() {
		case constant.Int:
			if n, ok := constant.Int64Val(x.Value); ok {
				if c12basic(x.Type(), types.IsFloat) {
					return c12val{k: 2, f: float64(n)}
				}
				return c12val{k: 1, i: n}
			}
		case constant.Float:
			f, _ := constant.Float64Val(x.Value)
			if c12basic(x.Type(), types.IsInteger) {
				return c12val{k: 1, i: int64(f)}
			}
			return c12val{k: 2, f: f}
		case constant.Bool:
			return c12val{k: 3, b: constant.BoolVal(x.Value)}
		case constant.String:
			return c12val{k: 4, s: constant.StringVal(x.Value)}
		}
		return c12val{}
	case *ssa.ChangeType:
		return it.eval(x.X, env)
	case *ssa.Convert:
		a := it.eval(x.X, env)
		switch {
		case a.k == 1 && c12basic(x.Type(), types.IsInteger):
			return c12val{k: 1, i: wrapInt(a.i, x.Type())}
		case a.k == 1 && c12basic(x.Type(), types.IsFloat):
			return c12val{k: 2, f: float64(a.i)}
		case a.k == 2 && c12basic(x.Type(), types.IsFloat):
			return a
		case a.k == 2 && c12basic(x.Type(), types.IsInteger):
			if math.IsNaN(a.f) || math.Abs(a.f) > 1e18 {
				return c12val{}
			}
			return c12val{k: 1, i: wrapInt(int64(a.f), x.Type())} // truncation toward zero, as Go does
		}
		return c12val{}
	case *ssa.UnOp:
		switch x.Op {
		case token.SUB:
			a := it.eval(x.X, env)
			switch a.k {
			case 1:
				return c12val{k: 1, i: -a.i}
			case 2:
				return c12val{k: 2, f: -a.f}
			}
		case token.NOT:
			if a := it.eval(x.X, env); a.k == 3 {
				return c12val{k: 3, b: !a.b}
			}
		case token.MUL:
			if fw := core.Forward(x); fw != ssa.Value(x) {
				return it.eval(fw, env)
			}
		}
		return c12val{}
	case *ssa.BinOp:
		a, b := it.eval(x.X, env), it.eval(x.Y, env)
		if a.k == 4 && b.k == 4 {
			switch x.Op {
			case token.EQL:
				return c12val{k: 3, b: a.s == b.s}
			case token.NEQ:
				return c12val{k: 3, b: a.s != b.s}
			case token.LSS:
				return c12val{k: 3, b: a.s < b.s}
			case token.LEQ:
				return c12val{k: 3, b: a.s <= b.s}
			case token.GTR:
				return c12val{k: 3, b: a.s > b.s}
			case token.GEQ:
				return c12val{k: 3, b: a.s >= b.s}
			}
			return c12val{}
		}
		if a.k == 3 && b.k == 3 {
			switch x.Op {
			case token.EQL:
				return c12val{k: 3, b: a.b == b.b}
			case token.NEQ:
				return c12val{k: 3, b: a.b != b.b}
			case token.AND:
				return c12val{k: 3, b: a.b && b.b}
			case token.OR:
				return c12val{k: 3, b: a.b || b.b}
			}
			return c12val{}
		}
		if a.k == 1 && b.k == 1 {
			switch x.Op {
			case token.ADD:
				return c12val{k: 1, i: a.i + b.i}
			case token.SUB:
				return c12val{k: 1, i: a.i - b.i}
			case token.MUL:
				return c12val{k: 1, i: a.i * b.i}
			case token.QUO:
				if b.i != 0 {
					return c12val{k: 1, i: a.i / b.i}
				}
			case token.REM:
				if b.i != 0 {
					return c12val{k: 1, i: a.i % b.i}
				}
			case token.EQL:
				return c12val{k: 3, b: a.i == b.i}
			case token.NEQ:
				return c12val{k: 3, b: a.i != b.i}
			case token.LSS:
				return c12val{k: 3, b: a.i < b.i}
			case token.LEQ:
				return c12val{k: 3, b: a.i <= b.i}
			case token.GTR:
				return c12val{k: 3, b: a.i > b.i}
			case token.GEQ:
				return c12val{k: 3, b: a.i >= b.i}
			}
			return c12val{}
		}
		if a.k == 2 && b.k == 2 {
			switch x.Op {
			case token.ADD:
				return c12val{k: 2, f: a.f + b.f}
			case token.SUB:
				return c12val{k: 2, f: a.f - b.f}
			case token.MUL:
				return c12val{k: 2, f: a.f * b.f}
			case token.QUO:
				if b.f != 0 {
					return c12val{k: 2, f: a.f / b.f}
				}
			case token.EQL:
				return c12val{k: 3, b: a.f == b.f}
			case token.NEQ:
				return c12val{k: 3, b: a.f != b.f}
			case token.LSS:
				return c12val{k: 3, b: a.f < b.f}
			case token.LEQ:
				return c12val{k: 3, b: a.f <= b.f}
			case token.GTR:
				return c12val{k: 3, b: a.f > b.f}
			case token.GEQ:
				return c12val{k: 3, b: a.f >= b.f}
			}
		}
		return c12val{}
	case *ssa.Call:
		// the accessors of time.Duration, by their specification
		if x.Call.IsInvoke() || len(x.Call.Args) != 1 {
			return c12val{}
		}
		a := it.eval(x.Call.Args[0], env)
		if a.k != 1 {
			return c12val{}
		}
		switch core.CalleeName(x) {
		case "(time.Duration).Nanoseconds":
			return a
		case "(time.Duration).Microseconds":
			return c12val{k: 1, i: a.i / 1e3}
		case "(time.Duration).Milliseconds":
			return c12val{k: 1, i: a.i / 1e6}
		case "(time.Duration).Seconds":
			return c12val{k: 2, f: float64(a.i/1e9) + float64(a.i%1e9)/1e9}
		case "(time.Duration).Minutes":
			return c12val{k: 2, f: float64(a.i/60e9) + float64(a.i%60e9)/60e9}
		}
		return c12val{}
	}
	return c12val{}
}

// walk interprets block b from instruction idx on; cur is what the result holds (set=false: never assigned).
func (it *c12interp) walk(b *ssa.BasicBlock, idx int, env map[ssa.Value]c12val, cur c12val, set bool, depth int) {
	for {
		it.steps++
		if it.steps > 4000 || depth > 200 {
			it.gaveUp = "too many paths after the command"
			return
		}
		var next []*ssa.BasicBlock
		for i := idx; i < len(b.Instrs); i++ {
			if it.stopAt != nil && b.Instrs[i] == it.stopAt {
				return
			}
			switch in := b.Instrs[i].(type) {
			case *ssa.Store:
				if it.sinkCell != nil && it.x.w.resultCell(in.Addr) == it.sinkCell {
					cur, set = it.eval(in.Val, env), true
				}
			case *ssa.Return:
				if it.sinkCell == nil {
					if it.retIdx < len(in.Results) {
						it.out = append(it.out, it.eval(core.Result(in, it.retIdx), env))
					}
				} else if set {
					it.out = append(it.out, cur)
				} else {
					it.stale = true
				}
				return
			case *ssa.If:
				c := it.eval(in.Cond, env)
				skip, keep := it.errFails, it.errHolds
				if it.onError {
					skip, keep = it.errHolds, it.errFails
				}
				for si, s := range b.Succs {
					e := core.Edge{From: b, To: s}
					if skip[e] {
						continue // the command failed: no reply to convert (onError: it succeeded)
					}
					if c.k == 3 && !keep[e] && ((c.b && si == 1) || (!c.b && si == 0)) {
						continue
					}
					next = append(next, s)
				}
			case *ssa.Jump:
				next = append(next, b.Succs[0])
			case *ssa.Panic:
				return
			}
		}
		if len(next) == 0 {
			return
		}
		enter := func(s *ssa.BasicBlock, env map[ssa.Value]c12val) map[ssa.Value]c12val {
			pi := -1
			for j, p := range s.Preds {
				if p == b {
					pi = j
				}
			}
			var phis []*ssa.Phi
			for _, in := range s.Instrs {
				if ph, ok := in.(*ssa.Phi); ok {
					phis = append(phis, ph)
				}
			}
			if len(phis) == 0 || pi < 0 {
				return env
			}
			ne := make(map[ssa.Value]c12val, len(env)+len(phis))
			for k, v := range env {
				ne[k] = v
			}
			for _, ph := range phis {
				ne[ph] = it.eval(ph.Edges[pi], env)
			}
			return ne
		}
		for _, s := range next[1:] {
			it.walk(s, 0, enter(s, env), cur, set, depth+1)
		}
		env = enter(next[0], env)
		b, idx = next[0], 0
		depth++
	}
}

// c12replySeconds decides the Duration→int seconds conversion of reply value replyIdx into the wrapper's result resIdx.
// cell is the wrapper's named-result cell the command closure f fills (nil: f is
// the wrapper itself and returns the value directly).
func c12replySeconds(o *core.O, p *core.Prog, x *c12wrap, f *ssa.Function, cmd ssa.CallInstruction, replyIdx, resIdx int, cell *ssa.Alloc) {
	o.Site(1)
	errVals, res := x.cmdResults()
	rv := fmt.Sprintf("res#%d", replyIdx)
	isReply := func(v ssa.Value) bool {
		return res(v) == rv || res(core.Forward(v)) == rv || res(x.w.capturedLoad(core.Forward(v))) == rv
	}
	isErr := func(v ssa.Value) bool { return errVals[x.w.capturedLoad(core.Forward(v))] }
	holds, fails := core.EdgesOf(f, core.Cmp(token.EQL, isErr, core.IsNil))
	if cell != nil {
		for _, st := range x.w.cellStores(cell) {
			if st.Parent() != f {
				o.Unres("%s: result #%d is also assigned outside the command closure (%s): the seconds conversion cannot be evaluated", x.name, resIdx, p.InstrPos(st))
				return
			}
		}
	}
	where := p.InstrPos(cmd)
	for _, s := range c12replySamples {
		it := &c12interp{x: x, f: f, isReply: isReply, reply: s.reply, sinkCell: cell, retIdx: resIdx,
			errFails: map[core.Edge]bool{}, errHolds: map[core.Edge]bool{}}
		for _, e := range fails {
			it.errFails[e] = true
		}
		for _, e := range holds {
			it.errHolds[e] = true
		}
		at := core.After(cmd)
		it.walk(at.B, at.Idx, map[ssa.Value]c12val{}, c12val{}, false, 0)
		if it.gaveUp != "" {
			o.Unres("%s: %s: the seconds conversion of the reply cannot be evaluated", x.name, it.gaveUp)
			return
		}
		if len(it.out) == 0 && !it.stale {
			o.Unres("%s: no return is reached after a successful command when the seconds conversion is evaluated for the reply %s", x.name, s.what)
			return
		}
		if it.stale && s.want != 0 {
			o.Fail(where, "%s: for the reply %s some path leaves result #%d unassigned (0); the reply in whole seconds is %d (negative replies are go-redis' sentinels and pass through unchanged)", x.name, s.what, resIdx, s.want)
			return
		}
		for _, v := range it.out {
			if v.k == 0 {
				o.Unres("%s: for the reply %s result #%d is %s (conversion shape not understood)", x.name, s.what, resIdx, v)
				return
			}
			if v.k != 1 || v.i != s.want {
				o.Fail(where, "%s: for the reply %s result #%d is %s; the reply in whole seconds is %d (go-redis hands the TTL sentinels -1 = no expiry and -2 = no such key through as -1ns/-2ns: they pass unchanged, every non-negative reply is divided by time.Second)", x.name, s.what, resIdx, v, s.want)
				return
			}
		}
	}
}
