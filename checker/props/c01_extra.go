package props

import (
	"go/token"
	"go/types"
	"sort"

	"godcheck/core"

	"golang.org/x/tools/go/ssa"
)

// Rules added after the independent seeding rounds (C01-um3): the named registry
// hands ONE breaker per name to every goroutine.

// c01Reg holds the anchors of the named registry, resolved by role: the
// package-level map from names to Breakers of lib/breaker, the functions that
// insert into it and the functions that look it up.
type c01Reg struct {
	p        *core.Prog
	la       *core.LockAnalysis
	varName  string // the package-level map[string]Breaker
	isMap    func(ssa.Value) bool
	helpers  map[*ssa.Function][2]int // inserting helper → (index of the key parameter, index of the value parameter or -1)
	funcs    []*ssa.Function
	deletes  int
	problems []string
}

// c01Insert is one insertion into the registry: a map update, or the call of an
// inserting helper.
type c01Insert struct {
	in       ssa.Instruction
	key, val ssa.Value // val nil: not known at this site
}

func c01IsBreakerType(t types.Type) bool {
	n, ok := t.(*types.Named)
	return ok && n.Obj().Name() == "Breaker" && n.Obj().Pkg() != nil && core.Short(n.Obj().Pkg().Path()) == brkPkg
}

func c01Norm(v ssa.Value) ssa.Value { return core.Strip(core.Forward(core.Strip(v))) }

func newC01Reg(p *core.Prog) *c01Reg {
	g := &c01Reg{p: p, helpers: map[*ssa.Function][2]int{}}
	sp := p.Pkg(brkPkg)
	if sp == nil {
		g.problems = append(g.problems, "package "+brkPkg)
		return g
	}
	var names []string
	for n := range sp.Members {
		names = append(names, n)
	}
	sort.Strings(names)
	for _, n := range names {
		gl, ok := sp.Members[n].(*ssa.Global)
		if !ok {
			continue
		}
		pt, ok := gl.Type().(*types.Pointer)
		if !ok {
			continue
		}
		mt, ok := pt.Elem().Underlying().(*types.Map)
		if !ok || !c01IsBreakerType(mt.Elem()) {
			continue
		}
		if g.varName != "" {
			g.problems = append(g.problems, "exactly one package-level map of Breakers in "+brkPkg+" (found "+g.varName+" and "+n+")")
			return g
		}
		g.varName = n
	}
	if g.varName == "" {
		g.problems = append(g.problems, "the package-level map of Breakers in "+brkPkg)
		return g
	}
	g.isMap = core.IsGlobal(brkPkg, g.varName)
	g.funcs = p.PkgFuncs(brkPkg)
	g.la = core.NewLockAnalysis(p, brkPkg)
	for _, f := range g.funcs {
		g.deletes += len(core.Instrs(f, func(in ssa.Instruction) bool {
			c := core.AsCall(in)
			if c == nil {
				return false
			}
			b, ok := c.Common().Value.(*ssa.Builtin)
			return ok && b.Name() == "delete" && len(c.Common().Args) > 0 && g.isMap(c.Common().Args[0])
		}))
	}
	// inserting helpers: unexported top-level functions that store under a key handed in by the
	// caller without looking the key up themselves; their call sites are the insertions
	for _, f := range g.funcs {
		if f.Parent() != nil || token.IsExported(f.Name()) || len(g.lookups(f)) > 0 {
			continue
		}
		ups := g.updates(f)
		if len(ups) == 0 {
			continue
		}
		ki, vi, ok := -1, -1, true
		for n, u := range ups {
			k, v := c01ParamIndex(f, u.Key), c01ParamIndex(f, u.Value)
			if k < 0 || (n > 0 && (k != ki || v != vi)) {
				ok = false
			}
			ki, vi = k, v
		}
		if !ok {
			continue
		}
		callers := 0
		for _, h := range g.funcs {
			callers += len(core.Instrs(h, staticCallTo(f)))
		}
		if callers > 0 {
			g.helpers[f] = [2]int{ki, vi}
		}
	}
	return g
}

func c01ParamIndex(f *ssa.Function, v ssa.Value) int {
	v = c01Norm(v)
	for i, pa := range f.Params {
		if v == ssa.Value(pa) {
			return i
		}
	}
	return -1
}

func (g *c01Reg) updates(f *ssa.Function) []*ssa.MapUpdate {
	var out []*ssa.MapUpdate
	for _, in := range core.Instrs(f, func(in ssa.Instruction) bool {
		mu, ok := in.(*ssa.MapUpdate)
		return ok && g.isMap(mu.Map)
	}) {
		out = append(out, in.(*ssa.MapUpdate))
	}
	return out
}

func (g *c01Reg) lookups(f *ssa.Function) []*ssa.Lookup {
	var out []*ssa.Lookup
	for _, in := range core.Instrs(f, func(in ssa.Instruction) bool {
		l, ok := in.(*ssa.Lookup)
		return ok && g.isMap(l.X)
	}) {
		out = append(out, in.(*ssa.Lookup))
	}
	return out
}

// inserts lists the insertions made by f itself or through an inserting helper.
func (g *c01Reg) inserts(f *ssa.Function) []c01Insert {
	var out []c01Insert
	if _, isHelper := g.helpers[f]; isHelper {
		return nil
	}
	for _, b := range f.Blocks {
		for _, in := range b.Instrs {
			switch x := in.(type) {
			case *ssa.MapUpdate:
				if g.isMap(x.Map) {
					out = append(out, c01Insert{in, x.Key, x.Value})
				}
			case *ssa.Call:
				h := x.Call.StaticCallee()
				if h == nil {
					continue
				}
				if idx, ok := g.helpers[h]; ok && idx[0] < len(x.Call.Args) {
					e := c01Insert{in: in, key: x.Call.Args[idx[0]]}
					if idx[1] >= 0 && idx[1] < len(x.Call.Args) {
						e.val = x.Call.Args[idx[1]]
					}
					out = append(out, e)
				}
			}
		}
	}
	return out
}

func c01Root(f *ssa.Function) *ssa.Function {
	for f.Parent() != nil {
		f = f.Parent()
	}
	return f
}

func c01ReturnsBreaker(f *ssa.Function) bool {
	rs := f.Signature.Results()
	for i := 0; i < rs.Len(); i++ {
		if c01IsBreakerType(rs.At(i).Type()) {
			return true
		}
	}
	return false
}

// replaces: f overwrites the entry of a name on purpose (NoBreakerFor): it hands no breaker to
// its caller and does not look the name up.
func (g *c01Reg) replaces(f *ssa.Function) bool {
	return !c01ReturnsBreaker(c01Root(f)) && len(g.lookups(f)) == 0
}

func c01SameKey(a, b ssa.Value) bool {
	return c01Norm(a) == c01Norm(b) || gxSame(a, b)
}

// c01LookupOf resolves v to the map lookup whose value it is (`v, ok := m[k]` or `v := m[k]`).
func c01LookupOf(v ssa.Value) *ssa.Lookup {
	v = c01Norm(v)
	if e, ok := v.(*ssa.Extract); ok && e.Index == 0 {
		if l, ok := e.Tuple.(*ssa.Lookup); ok && l.CommaOk {
			return l
		}
		return nil
	}
	if l, ok := v.(*ssa.Lookup); ok && !l.CommaOk {
		return l
	}
	return nil
}

// c01Found is the atom "the key was present at one of the given lookups": the comma-ok
// result, or the looked-up value compared with nil (no nil Breaker is ever registered).
func c01Found(in map[*ssa.Lookup]bool) core.Atom {
	commaOK := func(v ssa.Value) bool {
		e, ok := core.Forward(v).(*ssa.Extract)
		if !ok || e.Index != 1 {
			return false
		}
		l, ok := e.Tuple.(*ssa.Lookup)
		return ok && l.CommaOk && in[l]
	}
	val := func(v ssa.Value) bool {
		l := c01LookupOf(v)
		return l != nil && in[l]
	}
	return core.AnyOf(core.BoolVal(commaOK), core.Cmp(token.NEQ, val, core.IsNil))
}

func c01LookupInstrs(ls map[*ssa.Lookup]bool) func(ssa.Instruction) bool {
	return func(in ssa.Instruction) bool {
		l, ok := in.(*ssa.Lookup)
		return ok && ls[l]
	}
}

// c01TargetReachable: can the return ret be reached with the value that enters its result through
// edge (nil: the value is the result itself) on a path from the entry that executes no blocked
// instruction and takes no cut edge?
func c01TargetReachable(f *ssa.Function, ret ssa.Instruction, edge *core.Edge, blocked func(ssa.Instruction) bool, cut []core.Edge) bool {
	cs := core.CutSet(cut)
	target := ret
	if edge != nil {
		if cs(*edge) {
			return false
		}
		target = gxLast(edge.From)
	}
	_, ok := core.Reach(core.Q{From: []core.At{core.Entry(f)}, Target: core.Is(target), Blocked: blocked, Cut: cs})
	return ok
}

func c01Extra(r *core.Run) {
	p := r.P
	var reg *c01Reg
	anchors := func(o *core.O) bool {
		if reg == nil {
			reg = newC01Reg(p)
		}
		for _, pr := range reg.problems {
			o.Unres("anchor not found: %s", pr)
		}
		return len(reg.problems) == 0
	}
	c01R10(r)
	c01R11(r)

	r.Check("D4/K3/registry-check-then-insert-atomic", "a breaker is inserted into the named registry (directly or through an inserting helper) only on the not-found outcome of a lookup of the same name made under the write lock, and that lock is not released between the lookup and the insertion – functions that replace an entry on purpose (no lookup, no breaker handed back) excepted [quantifier 'via the named registry, from any number of goroutines, for every breaker name': otherwise concurrent first users of a name get different breakers, the later insertion replaces the earlier one, and the outcomes of one name no longer accumulate in one window – 'rejects only when (total−5) exceeds 1.5 × successes' is evaluated on a partial history]", func(o *core.O) {
		if !anchors(o) {
			return
		}
		n, replacing := 0, 0
		for _, f := range reg.funcs {
			evs := reg.inserts(f)
			if len(evs) == 0 {
				continue
			}
			if reg.replaces(f) {
				replacing++
				continue
			}
			r.Fn(core.FuncName(f))
			for _, e := range evs {
				n++
				var locks []string
				for path := range reg.la.Held(e.in) {
					if k, _ := reg.la.HeldKind(e.in, path); k == 'W' {
						locks = append(locks, path)
					}
				}
				sort.Strings(locks)
				if len(locks) == 0 {
					o.Fail(p.InstrPos(e.in), "%s inserts a breaker into the registry without holding a write lock: two first users of a name can both insert", core.FuncName(f))
					continue
				}
				var first []string
				ok := false
				for _, lk := range locks {
					msgs := reg.checkThenInsert(f, e, lk)
					if len(msgs) == 0 {
						ok = true
						break
					}
					if first == nil {
						first = msgs
					}
				}
				if !ok {
					for _, m := range first {
						o.Fail(p.InstrPos(e.in), "%s", m)
					}
				}
			}
		}
		o.Site(n, "insertions into "+brkPkg+"."+reg.varName)
		if n == 0 {
			o.Unres("no function of %s inserts a created breaker into %s (%d replacing functions)", brkPkg, reg.varName, replacing)
		}
	})

	r.Check("D4/K1/registry-returns-registered", "every breaker a function of the registry returns is the one registered under the name: the value of a lookup of that name that found it (or that was made after the name was found or inserted; entries are never deleted), or the value inserted under the name on every path to that return [same clause: a caller that is handed anything else – the zero value of a missed lookup, a breaker built but not registered because the name was already present – records its outcomes outside the window of the name, or panics on a nil Breaker]", func(o *core.O) {
		if !anchors(o) {
			return
		}
		n := 0
		for _, f := range reg.funcs {
			if f.Parent() != nil || !c01ReturnsBreaker(f) || len(reg.inserts(f)) == 0 {
				continue
			}
			r.Fn(core.FuncName(f))
			evs := reg.inserts(f)
			all := map[*ssa.Lookup]bool{}
			for _, l := range reg.lookups(f) {
				all[l] = true
			}
			rs := f.Signature.Results()
			for _, ret := range core.Returns(f) {
				for i := 0; i < rs.Len(); i++ {
					if !c01IsBreakerType(rs.At(i).Type()) {
						continue
					}
					c01LeavesWithEdges(core.Result(ret, i), func(leaf ssa.Value, edge *core.Edge) {
						n++
						leaf = c01Norm(leaf)
						if l := c01LookupOf(leaf); l != nil && all[l] {
							// (A) this value is returned only when its own lookup found the name
							holds, _ := core.EdgesOf(f, c01Found(map[*ssa.Lookup]bool{l: true}))
							if !c01TargetReachable(f, ret, edge, nil, holds) {
								return
							}
							// (B) the lookup is made only after the name was found or inserted
							if reg.deletes == 0 {
								others := map[*ssa.Lookup]bool{}
								for x := range all {
									if x != l && c01SameKey(x.Index, l.Index) {
										others[x] = true
									}
								}
								var ins []ssa.Instruction
								for _, e := range evs {
									if c01SameKey(e.key, l.Index) {
										ins = append(ins, e.in)
									}
								}
								found, _ := core.EdgesOf(f, c01Found(others))
								if _, early := core.Reach(core.Q{From: []core.At{core.Entry(f)}, Target: core.Is(l), Blocked: core.Is(ins...), Cut: core.CutSet(found)}); !early {
									return
								}
							}
							o.Fail(p.InstrPos(ret), "%s returns the value of the lookup at %s also when that lookup missed the name (a nil Breaker, or not the breaker registered meanwhile)", core.FuncName(f), p.InstrPos(l))
							return
						}
						var ins []ssa.Instruction
						for _, e := range evs {
							if e.val != nil && c01Norm(e.val) == leaf {
								ins = append(ins, e.in)
							}
						}
						if len(ins) == 0 {
							o.Fail(p.InstrPos(ret), "%s returns %s: neither looked up in the registry nor inserted into it (its outcomes are recorded outside the window of the name)", core.FuncName(f), core.Describe(leaf))
							return
						}
						if c01TargetReachable(f, ret, edge, core.Is(ins...), nil) {
							o.Fail(p.InstrPos(ret), "%s returns the breaker it built also on a path on which it was not inserted under the name (the caller's outcomes are recorded outside the registered window)", core.FuncName(f))
						}
					})
				}
			}
		}
		o.Site(n, "returned breakers")
		if n == 0 {
			o.Unres("no function of %s returns a breaker and inserts into %s", brkPkg, reg.varName)
		}
	})
}

// checkThenInsert decides, for the insertion e of f and the write lock lk held at e, whether the
// insertion is the second half of an atomic check-then-insert; it returns what is wrong.
func (g *c01Reg) checkThenInsert(f *ssa.Function, e c01Insert, lk string) []string {
	p := g.p
	lw := map[*ssa.Lookup]bool{}
	for _, l := range g.lookups(f) {
		if k, held := g.la.HeldKind(l, lk); held && k == 'W' && c01SameKey(l.Index, e.key) {
			lw[l] = true
		}
	}
	if len(lw) == 0 {
		return []string{core.FuncName(f) + " inserts the breaker without having looked the name up under the write lock (a lookup made before the lock was taken is stale): concurrent first users of a name each register their own breaker, the last one replaces the others and the outcomes of the name are split over several windows"}
	}
	var msgs []string
	if w := core.Requires(f, core.Is(e.in), core.Not(c01Found(lw))); w != nil {
		msgs = append(msgs, core.FuncName(f)+" inserts the breaker on a path on which the lookup under the write lock did not miss the name: a registered breaker and its recorded outcomes are replaced")
	}
	isLW := c01LookupInstrs(lw)
	for _, u := range core.Instrs(f, func(in ssa.Instruction) bool {
		c, ok := in.(*ssa.Call)
		if !ok {
			return false
		}
		for _, q := range g.la.Releases(c) {
			if q == lk {
				return true
			}
		}
		return false
	}) {
		if _, bad := core.Reach(core.Q{From: []core.At{core.After(u)}, Target: core.Is(e.in), Blocked: isLW}); bad {
			msgs = append(msgs, core.FuncName(f)+" inserts the breaker after the lock was released at "+p.InstrPos(u)+" without looking the name up again: another goroutine can have registered a breaker in between, which is replaced")
		}
	}
	return msgs
}
