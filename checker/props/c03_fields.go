package props

// Helpers of the C03/C04 tables (prefix b2) for values that travel in the fields of a small
// struct value: "the variables a closure captured became the fields of a struct, the closure
// a method value of it" (rf3 C03-sr2). A load of a field of a struct is resolved to what was
// stored into that field where the struct was built: through whole-struct copies, through a
// by-value receiver / struct parameter of an unexported function all of whose uses are known
// (static calls and bound method values x.m — the receiver is the value bound at x.m), and
// through by-value closure bindings.

import (
	"go/token"
	"go/types"
	"strings"

	"godcheck/core"

	"golang.org/x/tools/go/ssa"
)

// b2WrapperTarget returns the declared function behind a synthetic wrapper of go/ssa
// (bound method closure x.m, thunk T.m), or nil.
func b2WrapperTarget(w *ssa.Function) *ssa.Function {
	if w == nil || w.Synthetic == "" || strings.HasPrefix(w.Synthetic, "godcheck") || w.Object() == nil {
		return nil
	}
	if tf, ok := w.Object().(*types.Func); ok {
		return w.Prog.FuncValue(tf)
	}
	return nil
}

func b2CallsStatically(f, callee *ssa.Function) bool {
	for _, b := range f.Blocks {
		for _, in := range b.Instrs {
			if c, ok := in.(ssa.CallInstruction); ok && c.Common().StaticCallee() == callee {
				return true
			}
		}
	}
	return false
}

// b2InlinedBound: a bound-method wrapper into which a program variant has inlined the
// method; it then is the method's body over the captured receiver (or over the cells the
// receiver was split into) and is analysed like any other closure of the package.
func b2InlinedBound(w *ssa.Function) bool {
	t := b2WrapperTarget(w)
	return t != nil && t.Pkg != nil && len(w.FreeVars) > 0 && w.Blocks != nil && !b2CallsStatically(w, t)
}

// b2FuncPkg: the package a function belongs to (closures: that of the enclosing function;
// synthetic wrappers carry none: that of the function they wrap).
func b2FuncPkg(f *ssa.Function) *ssa.Package {
	for i := 0; f != nil && i < 8; i++ {
		if f.Pkg != nil {
			return f.Pkg
		}
		if t := b2WrapperTarget(f); t != nil && t.Pkg != nil {
			return t.Pkg
		}
		f = f.Parent()
	}
	return nil
}

// b2BoundReceiver: w is the (not inlined) bound-method wrapper of fn and hands its one
// captured value to fn as the receiver.
func b2BoundReceiver(w, fn *ssa.Function) bool {
	if b2WrapperTarget(w) != fn || len(w.FreeVars) != 1 {
		return false
	}
	n := 0
	for _, b := range w.Blocks {
		for _, in := range b.Instrs {
			c, ok := in.(ssa.CallInstruction)
			if !ok {
				continue
			}
			if c.Common().StaticCallee() != fn {
				return false
			}
			a := core.Args(c)
			if len(a) == 0 || a[0] != ssa.Value(w.FreeVars[0]) {
				return false
			}
			n++
		}
	}
	return n == 1
}

// b2ParamSources lists the values parameter idx (receiver = 0) of fn stands for: the
// arguments of its static call sites in the package and, for the receiver, the values
// bound where fn is used as a method value x.m. closed=false when fn can be reached in a
// way that is not visible here (exported, used as a plain function value or method
// expression, another parameter of a method value: its callers are unknown).
func b2ParamSources(p *core.Prog, fn *ssa.Function, idx int) (srcs []ssa.Value, closed bool) {
	if fn == nil || fn.Pkg == nil || fn.Parent() != nil || idx < 0 || idx >= len(fn.Params) {
		return nil, false
	}
	if o := fn.Object(); o == nil || o.Exported() {
		return nil, false // callable from anywhere
	}
	closed = true
	for _, g := range b2PkgFuncs(p, strings.TrimPrefix(fn.Pkg.Pkg.Path(), core.Mod+"/")) {
		for _, b := range g.Blocks {
			for _, in := range b.Instrs {
				if mc, ok := in.(*ssa.MakeClosure); ok {
					if w, ok := mc.Fn.(*ssa.Function); ok && b2WrapperTarget(w) == fn {
						if idx == 0 && len(mc.Bindings) == 1 && b2BoundReceiver(w, fn) {
							srcs = append(srcs, mc.Bindings[0])
						} else {
							closed = false
						}
						continue
					}
				}
				if c, ok := in.(ssa.CallInstruction); ok && c.Common().StaticCallee() == fn {
					if a := core.Args(c); idx < len(a) {
						srcs = append(srcs, a[idx])
					} else {
						closed = false
					}
					for _, a := range c.Common().Args {
						if a == ssa.Value(fn) {
							closed = false
						}
					}
					continue
				}
				for _, op := range in.Operands(nil) {
					if *op == nil {
						continue
					}
					if *op == ssa.Value(fn) {
						closed = false
					} else if w, ok := (*op).(*ssa.Function); ok && b2WrapperTarget(w) == fn {
						closed = false // method expression T.m / wrapper used as a plain value
					}
				}
			}
		}
	}
	return srcs, closed
}

// b2FieldStoreOfAlloc resolves field `field` of the local struct al, which must not
// escape (it is only accessed field by field, copied as a whole, or initialised as a
// whole): the one value stored into that field (val), or the one struct value the whole
// struct was initialised from (whole); neither when the field is written more than once,
// both ways, or never.
func b2FieldStoreOfAlloc(al *ssa.Alloc, field int) (val, whole ssa.Value) {
	if al.Referrers() == nil {
		return nil, nil
	}
	var fieldStores, wholeStores []*ssa.Store
	for _, r := range *al.Referrers() {
		switch x := r.(type) {
		case *ssa.FieldAddr:
			if x.X != ssa.Value(al) || x.Referrers() == nil {
				return nil, nil
			}
			for _, rr := range *x.Referrers() {
				switch y := rr.(type) {
				case *ssa.Store:
					if y.Addr != ssa.Value(x) {
						return nil, nil // the field's address is stored somewhere
					}
					if x.Field == field {
						fieldStores = append(fieldStores, y)
					}
				case *ssa.UnOp:
					if y.Op != token.MUL {
						return nil, nil
					}
				case *ssa.DebugRef:
				default:
					// &al.f handed on (call argument, nested field, closure binding): writes
					// through it are not visible here — only harmful for the field asked for
					if x.Field == field {
						return nil, nil
					}
				}
			}
		case *ssa.Store:
			if x.Addr != ssa.Value(al) {
				return nil, nil // the struct's address is stored: escapes
			}
			wholeStores = append(wholeStores, x)
		case *ssa.UnOp:
			if x.Op != token.MUL {
				return nil, nil
			}
		case *ssa.DebugRef:
		default:
			return nil, nil // address passed on, captured, compared …
		}
	}
	switch {
	case len(fieldStores) == 1 && len(wholeStores) == 0:
		return fieldStores[0].Val, nil
	case len(fieldStores) == 0 && len(wholeStores) == 1:
		return nil, wholeStores[0].Val
	}
	return nil, nil
}
