package props

import (
	"go/token"
	"go/types"

	"godcheck/core"

	"golang.org/x/tools/go/ssa"
)

// K10 helpers: goroutine / channel hygiene over the SSA of one package, and a
// value resolver that sees through captured variables (closure free variables
// are followed to the binding in the enclosing function).

// freeVarBinding returns the value bound to fv where its closure is created.
func freeVarBinding(fv *ssa.FreeVar) ssa.Value {
	fn := fv.Parent()
	par := fn.Parent()
	if par == nil {
		return nil
	}
	idx := -1
	for i, x := range fn.FreeVars {
		if x == fv {
			idx = i
		}
	}
	if idx < 0 {
		return nil
	}
	var found ssa.Value
	n := 0
	for _, b := range par.Blocks {
		for _, in := range b.Instrs {
			if mc, ok := in.(*ssa.MakeClosure); ok && mc.Fn == fn && idx < len(mc.Bindings) {
				found = mc.Bindings[idx]
				n++
			}
		}
	}
	if n != 1 {
		return nil
	}
	return found
}

// cellOf normalises an address to the variable cell it denotes: an Alloc, or a
// free variable resolved to the Alloc it captures (through any nesting depth).
func cellOf(addr ssa.Value) ssa.Value {
	for i := 0; i < 8; i++ {
		fv, ok := addr.(*ssa.FreeVar)
		if !ok {
			return addr
		}
		b := freeVarBinding(fv)
		if b == nil {
			return addr
		}
		addr = b
	}
	return addr
}

// storesToCell lists every store to the variable cell (in the allocating
// function and in every closure that captures it, transitively).
func storesToCell(cell ssa.Value) []*ssa.Store {
	var out []*ssa.Store
	seen := map[ssa.Value]bool{}
	var visit func(v ssa.Value)
	visit = func(v ssa.Value) {
		if v == nil || seen[v] {
			return
		}
		seen[v] = true
		refs := v.Referrers()
		if refs == nil {
			return
		}
		for _, r := range *refs {
			switch x := r.(type) {
			case *ssa.Store:
				if x.Addr == v {
					out = append(out, x)
				}
			case *ssa.MakeClosure:
				fn := x.Fn.(*ssa.Function)
				for i, b := range x.Bindings {
					if b == v && i < len(fn.FreeVars) {
						visit(fn.FreeVars[i])
					}
				}
			}
		}
	}
	visit(cell)
	return out
}

// resolve follows value-preserving conversions and loads of variable cells
// with exactly one store (looking through closure capture) to the defining
// value: a MakeChan, MakeClosure, Function, Parameter, Call, field load, ...
func resolve(v ssa.Value) ssa.Value {
	for i := 0; i < 16; i++ {
		v = core.Strip(v)
		u, ok := v.(*ssa.UnOp)
		if !ok || u.Op != token.MUL {
			return v
		}
		cell := cellOf(u.X)
		if _, isAlloc := cell.(*ssa.Alloc); !isAlloc {
			return v
		}
		sts := storesToCell(cell)
		if len(sts) != 1 {
			return v
		}
		v = sts[0].Val
	}
	return v
}

// chanID gives a stable identity of a channel value: the MakeChan that created
// it (pointer identity rendered through its variable cell), "param:<fn>.<name>"
// or "field:T.f" for channels reached through a struct field.
func chanID(v ssa.Value) string {
	r := resolve(v)
	switch x := r.(type) {
	case *ssa.MakeChan:
		return "make:" + x.Parent().String() + "@" + chanVarName(x)
	case *ssa.Parameter:
		return "param:" + x.Parent().String() + "." + x.Name()
	case *ssa.UnOp:
		if n := core.FieldAddrName(x.X); n != "" {
			return "field:" + n
		}
	case *ssa.Field:
		if n := core.FieldAddrName(x); n != "" {
			return "field:" + n
		}
	}
	return ""
}

// chanVarName names a MakeChan by the variable (or field) it is stored into;
// falls back to its ordinal among the function's MakeChans.
func chanVarName(mc *ssa.MakeChan) string {
	if refs := mc.Referrers(); refs != nil {
		for _, r := range *refs {
			if st, ok := r.(*ssa.Store); ok && st.Val == mc {
				if al, ok := st.Addr.(*ssa.Alloc); ok && al.Comment != "" {
					return al.Comment
				}
				if n := core.FieldAddrName(st.Addr); n != "" {
					return n
				}
			}
		}
	}
	n := 0
	for _, b := range mc.Parent().Blocks {
		for _, in := range b.Instrs {
			if in == ssa.Instruction(mc) {
				return "#" + string(rune('0'+n))
			}
			if _, ok := in.(*ssa.MakeChan); ok {
				n++
			}
		}
	}
	return "?"
}

// fieldChanSources lists the identities of the channels stored into field
// "T.f" anywhere in the given functions (composite literals, assignments).
func fieldChanSources(funcs []*ssa.Function, tf string) []string {
	var out []string
	for _, f := range funcs {
		for _, st := range core.StoresToField(f, tf) {
			if id := chanID(st.Val); id != "" {
				out = append(out, id)
			}
		}
	}
	return out
}

func isBuiltinCall(in ssa.Instruction, name string) bool {
	c := core.AsCall(in)
	if c == nil {
		return false
	}
	b, ok := c.Common().Value.(*ssa.Builtin)
	return ok && b.Name() == name
}

// calleeFn resolves the function run by a call/defer/go instruction when it is
// statically known: a static callee, an immediately applied closure, or a
// function variable holding exactly one local closure.
func calleeFn(c ssa.CallInstruction) *ssa.Function {
	cc := c.Common()
	if cc.IsInvoke() {
		return nil
	}
	switch x := resolve(cc.Value).(type) {
	case *ssa.Function:
		return x
	case *ssa.MakeClosure:
		return x.Fn.(*ssa.Function)
	}
	return nil
}

// k10 analyses one package.
type k10 struct {
	funcs []*ssa.Function
	in    map[*ssa.Function]bool
	may   map[*ssa.Function]int // 0 unknown, 1 in progress, 2 no, 3 yes
}

func newK10(funcs []*ssa.Function) *k10 {
	k := &k10{funcs: funcs, in: map[*ssa.Function]bool{}, may: map[*ssa.Function]int{}}
	for _, f := range funcs {
		k.in[f] = true
	}
	return k
}

func isFuncTyped(v ssa.Value) bool {
	_, ok := v.Type().Underlying().(*types.Signature)
	return ok
}

// userSites lists the call/defer instructions of f (not `go`: a spawned
// goroutine is a separate obligation) through which a function value that is
// not defined in the package (a caller-supplied callback: a parameter, a
// captured parameter, a struct field, an unknown value) may be called.
func (k *k10) userSites(f *ssa.Function) []ssa.Instruction {
	var out []ssa.Instruction
	for _, b := range f.Blocks {
		for _, in := range b.Instrs {
			if _, isGo := in.(*ssa.Go); isGo {
				continue
			}
			c := core.AsCall(in)
			if c == nil {
				continue
			}
			cc := c.Common()
			if cc.IsInvoke() {
				continue
			}
			if _, ok := cc.Value.(*ssa.Builtin); ok {
				continue
			}
			hit := false
			if g := calleeFn(c); g != nil {
				if k.in[g] && k.mayCallUser(g) {
					hit = true
				}
			} else {
				hit = true // dynamic call of a value the package did not define
			}
			// closures handed to a callee (sync.Once.Do(func(){...})) run inside the call
			for _, a := range cc.Args {
				if mc, ok := a.(*ssa.MakeClosure); ok && k.mayCallUser(mc.Fn.(*ssa.Function)) {
					hit = true
				}
			}
			if hit {
				out = append(out, in)
			}
		}
	}
	return out
}

func (k *k10) mayCallUser(f *ssa.Function) bool {
	switch k.may[f] {
	case 1, 2:
		return false
	case 3:
		return true
	}
	k.may[f] = 1
	r := len(k.userSites(f)) > 0
	if r {
		k.may[f] = 3
	} else {
		k.may[f] = 2
	}
	return r
}

func isRecoverCall(in ssa.Instruction) bool { return isBuiltinCall(in, "recover") }

// forwarders are the functions of the package that send one of their
// parameters on a channel (role of onceChan.write); the result maps the
// function to the index of the forwarded parameter.
func (k *k10) forwarders() map[*ssa.Function]int {
	out := map[*ssa.Function]int{}
	for _, f := range k.funcs {
		for _, in := range core.Instrs(f, func(in ssa.Instruction) bool { _, ok := in.(*ssa.Send); return ok }) {
			if p, ok := core.Strip(in.(*ssa.Send).X).(*ssa.Parameter); ok {
				for i, q := range f.Params {
					if q == p {
						out[f] = i
					}
				}
			}
		}
	}
	return out
}

// recoverForwards reports why the deferred function g does not forward a
// recovered panic ("" when it does): g calls recover(), and on the
// recover()!=nil arm every path to g's end hands the recovered value to a
// forwarder.
func (k *k10) recoverForwards(g *ssa.Function) string {
	recs := core.Instrs(g, isRecoverCall)
	if len(recs) == 0 {
		return "does not call recover()"
	}
	fw := k.forwarders()
	isRec := func(v ssa.Value) bool {
		c, ok := v.(*ssa.Call)
		return ok && isRecoverCall(c)
	}
	recNil := core.Cmp(token.EQL, isRec, core.IsNil)
	_, arm := core.EdgesOf(g, recNil)
	if len(arm) == 0 {
		return "never tests recover() != nil"
	}
	isForward := func(in ssa.Instruction) bool {
		c, ok := in.(*ssa.Call)
		if !ok {
			return false
		}
		callee := c.Call.StaticCallee()
		if callee == nil {
			return false
		}
		idx, ok := fw[callee]
		if !ok || idx >= len(c.Call.Args) {
			return false
		}
		return isRec(core.Strip(c.Call.Args[idx]))
	}
	var from []core.At
	for _, e := range arm {
		from = append(from, core.Head(e.To))
	}
	if _, bad := core.Reach(core.Q{From: from, Target: core.IsExit, Blocked: isForward}); bad {
		return "has a path on the recover()!=nil arm that ends without forwarding the panic value to the panic channel"
	}
	return ""
}

// deferredFn returns the function run by a Defer instruction (closure or static).
func deferredFn(in ssa.Instruction) *ssa.Function {
	d, ok := in.(*ssa.Defer)
	if !ok {
		return nil
	}
	return calleeFn(d)
}

// goBody returns the function started by a `go` statement.
func goBody(g *ssa.Go) *ssa.Function { return calleeFn(g) }

// selectIndex matches the index result (#0) of the given select.
func selectIndex(sel *ssa.Select) func(ssa.Value) bool {
	return func(v ssa.Value) bool {
		e, ok := v.(*ssa.Extract)
		return ok && e.Tuple == sel && e.Index == 0
	}
}

// selectArm returns the edges entered when state k of sel was chosen.
func selectArm(fn *ssa.Function, sel *ssa.Select, k int) []core.Edge {
	h, _ := core.EdgesOf(fn, core.Cmp(token.EQL, selectIndex(sel), core.IsConstInt(int64(k))))
	return h
}

// selectRecvValue matches the value received by state k of sel.
func selectRecvValue(sel *ssa.Select, k int) func(ssa.Value) bool {
	// results: index, recvOk, then one value per receive state in order
	pos := 2
	for i, st := range sel.States {
		if i == k {
			break
		}
		if st.Dir == types.RecvOnly {
			pos++
		}
	}
	return func(v ssa.Value) bool {
		e, ok := core.Strip(v).(*ssa.Extract)
		return ok && e.Tuple == sel && e.Index == pos
	}
}

func selectRecvOk(sel *ssa.Select) func(ssa.Value) bool {
	return func(v ssa.Value) bool {
		e, ok := v.(*ssa.Extract)
		return ok && e.Tuple == sel && e.Index == 1
	}
}

func heads(es []core.Edge) []core.At {
	var out []core.At
	for _, e := range es {
		out = append(out, core.Head(e.To))
	}
	return out
}

func selects(f *ssa.Function) []*ssa.Select {
	var out []*ssa.Select
	for _, in := range core.Instrs(f, func(in ssa.Instruction) bool { _, ok := in.(*ssa.Select); return ok }) {
		out = append(out, in.(*ssa.Select))
	}
	return out
}

// isRecvOn matches plain receive instructions (`<-ch`, `v, ok := <-ch`, range) on channel id.
func isRecvOn(id string) func(ssa.Instruction) bool {
	return func(in ssa.Instruction) bool {
		u, ok := in.(*ssa.UnOp)
		return ok && u.Op == token.ARROW && chanID(u.X) == id
	}
}
