package props

import (
	"go/token"
	"go/types"
	"strings"

	"godcheck/core"

	"golang.org/x/tools/go/ssa"
)

// K10 helpers: goroutine / channel hygiene over the SSA of one package, and a
// value resolver that sees through captured variables (closure free variables
// are followed to the binding in the enclosing function).

// curProg is the program the running rule table analyses (set by c07/c16 on entry).
var curProg *core.Prog

// pkgIndex records, for one SSA package, where closures are created and where
// functions are statically called (call, go and defer), so that values can be
// followed from a closure's free variable to its binding and from a helper's
// parameter to the argument of its only call site.
type pkgIndex struct {
	funcs    []*ssa.Function
	mcs      map[*ssa.Function][]*ssa.MakeClosure
	sites    map[*ssa.Function][]ssa.CallInstruction
	valueUse map[*ssa.Function]bool
}

var pkgIndexes = map[*ssa.Package]*pkgIndex{}

// pkgFuncsAll lists the functions of package rel plus every closure they create
// (closures of a helper inlined by the variant machinery live on in its callers).
func pkgFuncsAll(p *core.Prog, rel string) []*ssa.Function {
	out := liveFuncs(p.PkgFuncs(rel))
	seen := map[*ssa.Function]bool{}
	for _, f := range out {
		seen[f] = true
	}
	for i := 0; i < len(out); i++ {
		for _, b := range out[i].Blocks {
			for _, in := range b.Instrs {
				if mc, ok := in.(*ssa.MakeClosure); ok {
					if g, ok := mc.Fn.(*ssa.Function); ok && !seen[g] && g.Blocks != nil && (g.Synthetic == "" || strings.HasPrefix(g.Synthetic, "godcheck") || inlinedBoundWrapper(g)) {
						seen[g] = true
						out = append(out, g)
					}
				}
			}
		}
	}
	return out
}

func indexOf(pkg *ssa.Package) *pkgIndex {
	if pkg == nil {
		return nil
	}
	if ix := pkgIndexes[pkg]; ix != nil {
		return ix
	}
	ix := &pkgIndex{mcs: map[*ssa.Function][]*ssa.MakeClosure{}, sites: map[*ssa.Function][]ssa.CallInstruction{}, valueUse: map[*ssa.Function]bool{}}
	if curProg != nil && curProg.SSA == pkg.Prog {
		ix.funcs = pkgFuncsAll(curProg, strings.TrimPrefix(pkg.Pkg.Path(), core.Mod+"/"))
	} else {
		ix.funcs = core.SSAPkgFuncs(pkg.Prog, pkg)
	}
	for _, f := range ix.funcs {
		for _, b := range f.Blocks {
			for _, in := range b.Instrs {
				var callee *ssa.Function
				if c, ok := in.(ssa.CallInstruction); ok {
					if callee = c.Common().StaticCallee(); callee != nil {
						if _, viaMC := c.Common().Value.(*ssa.MakeClosure); !viaMC {
							ix.sites[callee] = append(ix.sites[callee], c)
						}
					}
				}
				if mc, ok := in.(*ssa.MakeClosure); ok {
					if g, ok := mc.Fn.(*ssa.Function); ok {
						ix.mcs[g] = append(ix.mcs[g], mc)
						if t := boundTarget(g); t != nil {
							ix.valueUse[t] = true
						}
					}
				}
				for _, op := range in.Operands(nil) {
					if fv, ok := (*op).(*ssa.Function); ok && fv != callee {
						if _, isMC := in.(*ssa.MakeClosure); isMC {
							continue
						}
						ix.valueUse[fv] = true
						if t := boundTarget(fv); t != nil {
							ix.valueUse[t] = true
						}
					}
				}
			}
		}
	}
	pkgIndexes[pkg] = ix
	return ix
}

// boundTarget returns the declared method behind a synthetic bound-method
// closure / thunk (x.m used as a function value), or nil.
func boundTarget(w *ssa.Function) *ssa.Function {
	t := wrapperTarget(w)
	if t == nil || !callsStatically(w, t) {
		return nil
	}
	return t
}

// wrapperTarget returns the declared function a synthetic wrapper was generated for.
func wrapperTarget(w *ssa.Function) *ssa.Function {
	if w == nil || w.Synthetic == "" || strings.HasPrefix(w.Synthetic, "godcheck") || w.Object() == nil {
		return nil
	}
	if tf, ok := w.Object().(*types.Func); ok {
		return w.Prog.FuncValue(tf)
	}
	return nil
}

func callsStatically(f, callee *ssa.Function) bool {
	for _, b := range f.Blocks {
		for _, in := range b.Instrs {
			if c, ok := in.(ssa.CallInstruction); ok && c.Common().StaticCallee() == callee {
				return true
			}
		}
	}
	return false
}

// inlinedBoundWrapper: a bound-method wrapper (x.m used as a function value) into which a
// program variant has inlined m: the wrapper is then m's body over the captured receiver
// and is analysed like any other closure of the package.
func inlinedBoundWrapper(w *ssa.Function) bool {
	t := wrapperTarget(w)
	return t != nil && t.Pkg != nil && len(w.FreeVars) > 0 && !callsStatically(w, t)
}

// pkgOf: the package a function belongs to (synthetic wrappers carry none: the package
// of the function they wrap; closures: that of the enclosing function).
func pkgOf(f *ssa.Function) *ssa.Package {
	for i := 0; f != nil && i < 8; i++ {
		if f.Pkg != nil {
			return f.Pkg
		}
		if t := wrapperTarget(f); t != nil && t.Pkg != nil {
			return t.Pkg
		}
		f = f.Parent()
	}
	return nil
}

// freeVarBinding returns the value bound to fv where its closure is created.
func freeVarBinding(fv *ssa.FreeVar) ssa.Value {
	fn := fv.Parent()
	idx := -1
	for i, x := range fn.FreeVars {
		if x == fv {
			idx = i
		}
	}
	ix := indexOf(pkgOf(fn))
	if idx < 0 || ix == nil {
		return nil
	}
	ms := ix.mcs[fn]
	if len(ms) == 0 || idx >= len(ms[0].Bindings) {
		return nil
	}
	if len(ms) == 1 {
		return ms[0].Bindings[idx]
	}
	// A closure created at several sites (the inlined copies of the function that creates
	// it share it): the free variable denotes a definite value only when every site binds
	// the same one, compared after following captures outwards.
	var common ssa.Value
	for _, mc := range ms {
		if idx >= len(mc.Bindings) {
			return nil
		}
		b := mc.Bindings[idx]
		for i := 0; i < 8; i++ {
			inner, ok := b.(*ssa.FreeVar)
			if !ok || inner == fv {
				break
			}
			nb := freeVarBinding(inner)
			if nb == nil {
				break
			}
			b = nb
		}
		if common != nil && b != common {
			return nil
		}
		common = b
	}
	return common
}

// closureSites lists the instructions that create closure f in the (live) functions of its package.
func closureSites(f *ssa.Function) []*ssa.MakeClosure {
	ix := indexOf(pkgOf(f))
	if ix == nil {
		return nil
	}
	return ix.mcs[f]
}

// paramBinding returns the argument passed for parameter p when p belongs to an
// unexported top-level function or method of the package that is never used as
// a value and has exactly one static use (a call, `go` or `defer`): inside such
// a helper the parameter denotes that argument.
func paramBinding(p *ssa.Parameter) ssa.Value {
	fn := p.Parent()
	if fn == nil || fn.Parent() != nil || fn.Object() == nil || fn.Object().Exported() || fn.Synthetic != "" {
		return nil
	}
	ix := indexOf(pkgOf(fn))
	if ix == nil || ix.valueUse[fn] || len(ix.sites[fn]) != 1 {
		return nil
	}
	args := ix.sites[fn][0].Common().Args
	for i, q := range fn.Params {
		if q == p && i < len(args) {
			return args[i]
		}
	}
	return nil
}

// onlySite returns the single static use of an unexported top-level helper (nil otherwise).
func onlySite(fn *ssa.Function) ssa.CallInstruction {
	if fn == nil || fn.Parent() != nil || fn.Object() == nil || fn.Object().Exported() {
		return nil
	}
	ix := indexOf(pkgOf(fn))
	if ix == nil || ix.valueUse[fn] || len(ix.sites[fn]) != 1 {
		return nil
	}
	return ix.sites[fn][0]
}

// cellOf normalises an address to the variable cell it denotes: an Alloc, or a
// free variable / helper parameter / loaded pointer resolved to the Alloc it
// stands for (through any nesting depth).
func cellOf(addr ssa.Value) ssa.Value {
	for i := 0; i < 12; i++ {
		switch x := addr.(type) {
		case *ssa.FreeVar:
			b := freeVarBinding(x)
			if b == nil {
				return addr
			}
			addr = b
		case *ssa.Parameter:
			b := paramBinding(x)
			if b == nil {
				return addr
			}
			addr = b
		case *ssa.UnOp:
			if x.Op != token.MUL {
				return addr
			}
			r := resolveWith(x, true)
			if r == ssa.Value(x) {
				return addr
			}
			addr = r
		case *ssa.ChangeType:
			addr = x.X
		default:
			return addr
		}
	}
	return addr
}

// storesToCell lists every store to the variable cell (in the allocating
// function and in every closure that captures it, transitively).
func storesToCell(cell ssa.Value) []*ssa.Store {
	var out []*ssa.Store
	seen := map[ssa.Value]bool{}
	var visit func(v ssa.Value)
	visit = func(v ssa.Value) {
		if v == nil || seen[v] {
			return
		}
		seen[v] = true
		refs := v.Referrers()
		if refs == nil {
			return
		}
		for _, r := range *refs {
			switch x := r.(type) {
			case *ssa.Store:
				if x.Addr == v {
					out = append(out, x)
				}
			case *ssa.MakeClosure:
				fn := x.Fn.(*ssa.Function)
				for i, b := range x.Bindings {
					if b == v && i < len(fn.FreeVars) {
						visit(fn.FreeVars[i])
					}
				}
			}
		}
	}
	visit(cell)
	return out
}

// resolve follows value-preserving conversions, loads of variable cells with
// exactly one store (looking through closure capture) and parameters of
// single-use unexported helpers to the defining value: a MakeChan,
// MakeClosure, Function, Parameter, Call, field load, ...
func resolve(v ssa.Value) ssa.Value { return resolveWith(v, true) }

// resolveLocal is resolve without following helper parameters to their arguments.
func resolveLocal(v ssa.Value) ssa.Value { return resolveWith(v, false) }

func resolveWith(v ssa.Value, params bool) ssa.Value {
	for i := 0; i < 24; i++ {
		v = core.Strip(v)
		if fv, ok := v.(*ssa.FreeVar); ok {
			// a value captured by value (the arguments of `defer h(args)` / `go h(args)` bound at
			// the statement, the receiver of a bound method value): the value bound where the
			// closure is created
			b := freeVarBinding(fv)
			if b == nil {
				return v
			}
			v = b
			continue
		}
		if pa, ok := v.(*ssa.Parameter); ok && params {
			b := paramBinding(pa)
			if b == nil {
				return v
			}
			v = b
			continue
		}
		u, ok := v.(*ssa.UnOp)
		if !ok || u.Op != token.MUL {
			return v
		}
		if fa, isFA := u.X.(*ssa.FieldAddr); isFA && resolveObjFields {
			// a field of a struct object that is only ever accessed field by field (the locals of a
			// function grouped into a struct, its closures turned into methods): the field is a
			// variable cell like a captured local; one store -> the value stored
			base := resolveWith(fa.X, params)
			if c, isCall := base.(*ssa.Call); isCall {
				if al := freshResult(c); al != nil {
					base = al // x := newT(...): the object the constructor allocates
				}
			}
			if obj, isObj := base.(*ssa.Alloc); isObj {
				if sts, closed := objFieldStores(obj, fa.Field); closed && len(sts) == 1 {
					v = sts[0].Val
					continue
				}
			}
			return v
		}
		var cell ssa.Value = u.X
		if fv, isFV := cell.(*ssa.FreeVar); isFV {
			// follow captures only (not parameters) to the variable cell
			for j := 0; j < 8 && isFV; j++ {
				b := freeVarBinding(fv)
				if b == nil {
					break
				}
				cell = b
				fv, isFV = cell.(*ssa.FreeVar)
			}
		}
		if _, isAlloc := cell.(*ssa.Alloc); !isAlloc {
			return v
		}
		sts := storesToCell(cell)
		if len(sts) != 1 {
			return v
		}
		v = sts[0].Val
	}
	return v
}

// chanID gives a stable identity of a channel value: the MakeChan that created
// it (pointer identity rendered through its variable cell), "param:<fn>.<name>"
// or "field:T.f" for channels reached through a struct field.
func chanID(v ssa.Value) string {
	r := resolve(v)
	switch x := r.(type) {
	case *ssa.MakeChan:
		return "make:" + x.Parent().String() + "@" + chanVarName(x)
	case *ssa.Parameter:
		return "param:" + x.Parent().String() + "." + x.Name()
	case *ssa.UnOp:
		if n := core.FieldAddrName(x.X); n != "" {
			return "field:" + n
		}
	case *ssa.Field:
		if n := core.FieldAddrName(x); n != "" {
			return "field:" + n
		}
	}
	return ""
}

// chanVarName names a MakeChan by the variable (or field) it is stored into;
// falls back to its ordinal among the function's MakeChans.
func chanVarName(mc *ssa.MakeChan) string {
	if refs := mc.Referrers(); refs != nil {
		for _, r := range *refs {
			if st, ok := r.(*ssa.Store); ok && st.Val == mc {
				if al, ok := st.Addr.(*ssa.Alloc); ok && al.Comment != "" {
					return al.Comment
				}
				if n := core.FieldAddrName(st.Addr); n != "" {
					return n
				}
			}
		}
	}
	n := 0
	for _, b := range mc.Parent().Blocks {
		for _, in := range b.Instrs {
			if in == ssa.Instruction(mc) {
				return "#" + string(rune('0'+n))
			}
			if _, ok := in.(*ssa.MakeChan); ok {
				n++
			}
		}
	}
	return "?"
}

// fieldChanSources lists the identities of the channels stored into field
// "T.f" anywhere in the given functions (composite literals, assignments).
func fieldChanSources(funcs []*ssa.Function, tf string) []string {
	var out []string
	for _, f := range funcs {
		for _, st := range core.StoresToField(f, tf) {
			if id := chanID(st.Val); id != "" {
				out = append(out, id)
			}
		}
	}
	return out
}

func isBuiltinCall(in ssa.Instruction, name string) bool {
	c := core.AsCall(in)
	if c == nil {
		return false
	}
	b, ok := c.Common().Value.(*ssa.Builtin)
	return ok && b.Name() == name
}

// fnOfValue resolves a function value to the function it denotes when that is
// statically known: a function, a closure, a variable holding exactly one local
// closure, a helper parameter bound to one, or a bound method value (x.m).
func fnOfValue(v ssa.Value) *ssa.Function {
	switch x := resolve(v).(type) {
	case *ssa.Function:
		if t := boundTarget(x); t != nil {
			return t
		}
		return x
	case *ssa.MakeClosure:
		g := x.Fn.(*ssa.Function)
		if t := boundTarget(g); t != nil {
			return t
		}
		return g
	}
	return nil
}

// calleeFn resolves the function run by a call/defer/go instruction when it is
// statically known (see fnOfValue).
func calleeFn(c ssa.CallInstruction) *ssa.Function {
	cc := c.Common()
	if cc.IsInvoke() {
		return nil
	}
	return fnOfValue(cc.Value)
}

// deferSiteOf returns the function that defers f and the defer instruction:
// f is a closure deferred where it is created, or an unexported helper whose
// only use is a `defer f(...)`.
func deferSiteOf(f *ssa.Function) (*ssa.Function, ssa.Instruction) {
	ix := indexOf(pkgOf(f))
	if ix == nil {
		return nil, nil
	}
	if ms := ix.mcs[f]; len(ms) == 1 && ms[0].Referrers() != nil {
		for _, r := range *ms[0].Referrers() {
			if d, ok := r.(*ssa.Defer); ok && d.Call.Value == ssa.Value(ms[0]) {
				return d.Parent(), d
			}
		}
		// stored in a variable and deferred through it
		for _, g := range ix.funcs {
			for _, b := range g.Blocks {
				for _, in := range b.Instrs {
					if d, ok := in.(*ssa.Defer); ok && !d.Call.IsInvoke() && fnOfValue(d.Call.Value) == f {
						return g, d
					}
				}
			}
		}
		return nil, nil
	}
	if s := onlySite(f); s != nil {
		if d, ok := s.(*ssa.Defer); ok {
			return d.Parent(), d
		}
	}
	return nil, nil
}

// runViaOnce reports whether f is run as the argument of a sync.Once.Do call, and returns those calls.
func runViaOnce(f *ssa.Function) []ssa.CallInstruction {
	ix := indexOf(pkgOf(f))
	if ix == nil {
		return nil
	}
	var out []ssa.CallInstruction
	isDo := core.CallTo("(*sync.Once).Do")
	for _, g := range ix.funcs {
		for _, c := range core.Calls(g, isDo) {
			a := c.Common().Args
			if len(a) > 0 && fnOfValue(a[len(a)-1]) == f {
				out = append(out, c)
			}
		}
	}
	return out
}

// k10 analyses one package.
type k10 struct {
	funcs []*ssa.Function
	in    map[*ssa.Function]bool
	may   map[*ssa.Function]int // 0 unknown, 1 in progress, 2 no, 3 yes
}

func newK10(funcs []*ssa.Function) *k10 {
	k := &k10{funcs: funcs, in: map[*ssa.Function]bool{}, may: map[*ssa.Function]int{}}
	for _, f := range funcs {
		k.in[f] = true
	}
	return k
}

func isFuncTyped(v ssa.Value) bool {
	_, ok := v.Type().Underlying().(*types.Signature)
	return ok
}

// userSites lists the call/defer instructions of f (not `go`: a spawned
// goroutine is a separate obligation) through which a function value that is
// not defined in the package (a caller-supplied callback: a parameter, a
// captured parameter, a struct field, an unknown value) may be called.
func (k *k10) userSites(f *ssa.Function) []ssa.Instruction {
	var out []ssa.Instruction
	for _, b := range f.Blocks {
		for _, in := range b.Instrs {
			if _, isGo := in.(*ssa.Go); isGo {
				continue
			}
			c := core.AsCall(in)
			if c == nil {
				continue
			}
			cc := c.Common()
			if cc.IsInvoke() {
				continue
			}
			if _, ok := cc.Value.(*ssa.Builtin); ok {
				continue
			}
			hit := false
			if g := calleeFn(c); g != nil {
				if k.in[g] && k.mayCallUser(g) {
					hit = true
				}
			} else {
				hit = true // dynamic call of a value the package did not define
			}
			// closures handed to a callee (sync.Once.Do(func(){...})) run inside the call
			for _, a := range cc.Args {
				if mc, ok := a.(*ssa.MakeClosure); ok && k.mayCallUser(mc.Fn.(*ssa.Function)) {
					hit = true
				}
			}
			if hit {
				out = append(out, in)
			}
		}
	}
	return out
}

func (k *k10) mayCallUser(f *ssa.Function) bool {
	switch k.may[f] {
	case 1, 2:
		return false
	case 3:
		return true
	}
	k.may[f] = 1
	r := len(k.userSites(f)) > 0
	if r {
		k.may[f] = 3
	} else {
		k.may[f] = 2
	}
	return r
}

func isRecoverCall(in ssa.Instruction) bool { return isBuiltinCall(in, "recover") }

// forwarders are the functions of the package that send one of their
// parameters on a channel (role of onceChan.write); the result maps the
// function to the index of the forwarded parameter.
func (k *k10) forwarders() map[*ssa.Function]int {
	out := map[*ssa.Function]int{}
	for _, f := range k.funcs {
		for _, in := range core.Instrs(f, func(in ssa.Instruction) bool { _, ok := in.(*ssa.Send); return ok }) {
			if p, ok := core.Strip(in.(*ssa.Send).X).(*ssa.Parameter); ok {
				for i, q := range f.Params {
					if q == p {
						out[f] = i
					}
				}
			}
		}
	}
	return out
}

// recoverForwards reports why the deferred function g does not forward a
// recovered panic ("" when it does): g calls recover(), and on the
// recover()!=nil arm every path to g's end hands the recovered value to a
// forwarder.
func (k *k10) recoverForwards(g *ssa.Function) string {
	recs := core.Instrs(g, isRecoverCall)
	if len(recs) == 0 {
		return "does not call recover()"
	}
	fw := k.forwarders()
	isRec := func(v ssa.Value) bool {
		c, ok := v.(*ssa.Call)
		return ok && isRecoverCall(c)
	}
	recNil := core.Cmp(token.EQL, isRec, core.IsNil)
	_, arm := core.EdgesOf(g, recNil)
	if len(arm) == 0 {
		return "never tests recover() != nil"
	}
	isForward := func(in ssa.Instruction) bool {
		c, ok := in.(*ssa.Call)
		if !ok {
			return false
		}
		callee := c.Call.StaticCallee()
		if callee == nil {
			return false
		}
		idx, ok := fw[callee]
		if !ok || idx >= len(c.Call.Args) {
			return false
		}
		return isRec(core.Strip(c.Call.Args[idx]))
	}
	var from []core.At
	for _, e := range arm {
		from = append(from, core.Head(e.To))
	}
	if _, bad := core.Reach(core.Q{From: from, Target: core.IsExit, Blocked: isForward}); bad {
		return "has a path on the recover()!=nil arm that ends without forwarding the panic value to the panic channel"
	}
	return ""
}

// deferredFn returns the function run by a Defer instruction (closure or static).
func deferredFn(in ssa.Instruction) *ssa.Function {
	d, ok := in.(*ssa.Defer)
	if !ok {
		return nil
	}
	return calleeFn(d)
}

// goBody returns the function started by a `go` statement.
func goBody(g *ssa.Go) *ssa.Function { return calleeFn(g) }

// selectIndex matches the index result (#0) of the given select.
func selectIndex(sel *ssa.Select) func(ssa.Value) bool {
	return func(v ssa.Value) bool {
		e, ok := v.(*ssa.Extract)
		return ok && e.Tuple == sel && e.Index == 0
	}
}

// selectArm returns the edges entered when state k of sel was chosen.
func selectArm(fn *ssa.Function, sel *ssa.Select, k int) []core.Edge {
	h, _ := core.EdgesOf(fn, core.Cmp(token.EQL, selectIndex(sel), core.IsConstInt(int64(k))))
	return h
}

// selectRecvValue matches the value received by state k of sel.
func selectRecvValue(sel *ssa.Select, k int) func(ssa.Value) bool {
	// results: index, recvOk, then one value per receive state in order
	pos := 2
	for i, st := range sel.States {
		if i == k {
			break
		}
		if st.Dir == types.RecvOnly {
			pos++
		}
	}
	return func(v ssa.Value) bool {
		e, ok := core.Strip(v).(*ssa.Extract)
		return ok && e.Tuple == sel && e.Index == pos
	}
}

func selectRecvOk(sel *ssa.Select) func(ssa.Value) bool {
	return func(v ssa.Value) bool {
		e, ok := v.(*ssa.Extract)
		return ok && e.Tuple == sel && e.Index == 1
	}
}

func heads(es []core.Edge) []core.At {
	var out []core.At
	for _, e := range es {
		out = append(out, core.Head(e.To))
	}
	return out
}

func selects(f *ssa.Function) []*ssa.Select {
	var out []*ssa.Select
	for _, in := range core.Instrs(f, func(in ssa.Instruction) bool { _, ok := in.(*ssa.Select); return ok }) {
		out = append(out, in.(*ssa.Select))
	}
	return out
}

// isRecvOn matches plain receive instructions (`<-ch`, `v, ok := <-ch`, range) on channel id.
func isRecvOn(id string) func(ssa.Instruction) bool {
	return func(in ssa.Instruction) bool {
		u, ok := in.(*ssa.UnOp)
		return ok && u.Op == token.ARROW && chanID(u.X) == id
	}
}

// phiValuesFrom lists the values v can take on paths that start with one of the
// given edges: a φ is narrowed to the incoming edges such a path can arrive
// through (recursively); any other value is returned as is.
func phiValuesFrom(v ssa.Value, start []core.Edge) []ssa.Value {
	seen := map[ssa.Value]bool{}
	var out []ssa.Value
	var walk func(v ssa.Value)
	walk = func(v ssa.Value) {
		if seen[v] {
			return
		}
		seen[v] = true
		ph, ok := v.(*ssa.Phi)
		if !ok {
			out = append(out, v)
			return
		}
		for i, e := range ph.Edges {
			pred := ph.Block().Preds[i]
			via := false
			for _, s := range start {
				if s.From == pred && s.To == ph.Block() {
					via = true
				}
			}
			if !via && len(pred.Instrs) > 0 {
				_, via = core.Reach(core.Q{From: heads(start), Target: core.Is(pred.Instrs[len(pred.Instrs)-1])})
			}
			if via {
				walk(e)
			}
		}
	}
	walk(v)
	return out
}

// liveFuncs drops the closures that no listed function creates or references any more:
// in a program variant a helper inlined (or closure-ized) at every use is hidden, and a
// closure that only the hidden original created is dead code, while the copies made by
// inlining refer to closures of their own or share the original's (those stay).
// Top-level functions and methods are kept as they are.
func liveFuncs(all []*ssa.Function) []*ssa.Function {
	listed := map[*ssa.Function]bool{}
	for _, f := range all {
		listed[f] = true
	}
	live := map[*ssa.Function]bool{}
	var work []*ssa.Function
	mark := func(f *ssa.Function) {
		if f != nil && listed[f] && !live[f] {
			live[f] = true
			work = append(work, f)
		}
	}
	for _, f := range all {
		if f.Parent() == nil {
			mark(f)
		}
	}
	for len(work) > 0 {
		f := work[len(work)-1]
		work = work[:len(work)-1]
		for _, b := range f.Blocks {
			for _, in := range b.Instrs {
				for _, op := range in.Operands(nil) {
					if g, ok := (*op).(*ssa.Function); ok {
						mark(g)
					}
				}
			}
		}
	}
	out := all[:0:0]
	for _, f := range all {
		if live[f] {
			out = append(out, f)
		}
	}
	return out
}

// resolveObjFields makes resolve follow loads of fields of non-escaping local struct objects
// (objFieldStores). Switched on by the C07 table only; the other tables sharing these helpers
// anchor on "field:T.f" identities of such loads.
var resolveObjFields bool

// objFieldStores lists every store to field #field of the struct object allocated by obj, and
// reports whether that list is complete: the object's pointer is only used to select fields, is
// bound into closures / bound-method wrappers and handed as an argument to functions of the
// package (go, defer and plain calls) in which the same holds for it, or sits in a local variable
// cell that is only loaded, stored and captured; the field's address is only loaded from and
// stored to. A pointer that is stored anywhere else, converted, merged by a phi, passed to a
// dynamic callee or to another package, or overwritten as a whole makes the answer incomplete.
func objFieldStores(obj *ssa.Alloc, field int) (stores []*ssa.Store, closed bool) {
	pt, ok := obj.Type().Underlying().(*types.Pointer)
	if !ok {
		return nil, false
	}
	if _, isStruct := pt.Elem().Underlying().(*types.Struct); !isStruct {
		return nil, false
	}
	pkg := pkgOf(obj.Parent())
	closed = true
	seen := map[ssa.Value]bool{}
	var visit, visitCell func(v ssa.Value)
	visitCell = func(c ssa.Value) {
		if c == nil || seen[c] || !closed {
			return
		}
		seen[c] = true
		if c.Referrers() == nil {
			closed = false
			return
		}
		for _, r := range *c.Referrers() {
			switch x := r.(type) {
			case *ssa.DebugRef:
			case *ssa.Store:
				if x.Addr != c {
					closed = false
				}
			case *ssa.UnOp:
				if x.Op != token.MUL {
					closed = false
					return
				}
				visit(x)
			case *ssa.MakeClosure:
				fn := x.Fn.(*ssa.Function)
				for i, b := range x.Bindings {
					if b == c && i < len(fn.FreeVars) {
						visitCell(fn.FreeVars[i])
					}
				}
			default:
				closed = false
			}
		}
	}
	visit = func(v ssa.Value) {
		if v == nil || seen[v] || !closed {
			return
		}
		seen[v] = true
		if v.Referrers() == nil {
			closed = false
			return
		}
		for _, r := range *v.Referrers() {
			switch x := r.(type) {
			case *ssa.DebugRef:
			case *ssa.FieldAddr:
				if x.Field != field {
					continue
				}
				if x.Referrers() == nil {
					closed = false
					return
				}
				for _, rr := range *x.Referrers() {
					switch y := rr.(type) {
					case *ssa.DebugRef:
					case *ssa.Store:
						if y.Addr != ssa.Value(x) {
							closed = false
							return
						}
						stores = append(stores, y)
					case *ssa.UnOp:
						if y.Op != token.MUL {
							closed = false
							return
						}
					default:
						closed = false
						return
					}
				}
			case *ssa.UnOp:
				if x.Op != token.MUL { // a whole-struct read does not write
					closed = false
					return
				}
			case *ssa.BinOp: // comparison with nil
			case *ssa.Store:
				al, isCell := x.Addr.(*ssa.Alloc)
				if x.Val != v || !isCell {
					closed = false // overwritten as a whole, or stored into something that is not a local variable
					return
				}
				visitCell(al)
			case *ssa.MakeClosure:
				fn := x.Fn.(*ssa.Function)
				if fn.Blocks == nil {
					closed = false
					return
				}
				for i, b := range x.Bindings {
					if b == v && i < len(fn.FreeVars) {
						visit(fn.FreeVars[i])
					}
				}
			case *ssa.Return:
				// the constructor hands the object to its callers: followed into each of them
				g := x.Parent()
				ix := indexOf(pkg)
				if len(x.Results) != 1 || ix == nil || g.Parent() != nil || g.Object() == nil || g.Object().Exported() || g.Synthetic != "" || ix.valueUse[g] {
					closed = false
					return
				}
				for _, site := range ix.sites[g] {
					if c, isCall := site.(*ssa.Call); isCall {
						visit(c)
					}
				}
			case ssa.CallInstruction:
				cc := x.Common()
				g := cc.StaticCallee()
				if cc.Value == v || g == nil || g.Blocks == nil || pkgOf(g) != pkg || pkg == nil || g.Signature.Variadic() {
					closed = false
					return
				}
				for i, a := range cc.Args {
					if a == v {
						if i >= len(g.Params) {
							closed = false
							return
						}
						visit(g.Params[i])
					}
				}
			default:
				closed = false
				return
			}
		}
	}
	visit(obj)
	if !closed {
		return nil, false
	}
	return stores, true
}

// freshResult: the call of an unexported in-package constructor whose every return hands out
// the struct object it allocates itself (x := newT(...)) - the allocation, else nil.
func freshResult(c *ssa.Call) *ssa.Alloc {
	g := c.Call.StaticCallee()
	if g == nil || g.Blocks == nil || g.Parent() != nil || g.Object() == nil || g.Object().Exported() || g.Synthetic != "" || g.Signature.Results().Len() != 1 {
		return nil
	}
	var obj *ssa.Alloc
	for _, b := range g.Blocks {
		for _, in := range b.Instrs {
			ret, ok := in.(*ssa.Return)
			if !ok {
				continue
			}
			al, isAl := resolveLocal(ret.Results[0]).(*ssa.Alloc)
			if !isAl || al.Parent() != g || !al.Heap || (obj != nil && obj != al) {
				return nil
			}
			obj = al
		}
	}
	return obj
}

// deadStore: the value written by st (a store to field tf of some object) can never be observed when
// the path continues without following a cut edge: every such path from st runs into another store to
// the same field of the same object before the function returns, calls anything (the callee, a started
// goroutine or a deferred call could read the object) or loads the field / the whole object itself.
// `o.f = x; if x < min { o.f = min }` is `if x < min { o.f = min } else { o.f = x }`: with the edges on
// which x is known to be large enough cut, the first store is dead. The witness (the observer reached)
// is returned, nil when the store is dead.
func deadStore(f *ssa.Function, st *ssa.Store, tf string, cut []core.Edge) ssa.Instruction {
	fa, ok := st.Addr.(*ssa.FieldAddr)
	if !ok {
		return st
	}
	base := resolveLocal(fa.X)
	sameField := func(addr ssa.Value) bool {
		a, ok := addr.(*ssa.FieldAddr)
		return ok && a.Field == fa.Field && core.FieldAddrName(a) == tf && resolveLocal(a.X) == base
	}
	overwrite := func(in ssa.Instruction) bool {
		s2, ok := in.(*ssa.Store)
		return ok && s2 != st && sameField(s2.Addr)
	}
	observe := func(in ssa.Instruction) bool {
		switch x := in.(type) {
		case *ssa.Return, *ssa.Go, *ssa.Defer, *ssa.Panic:
			return true
		case *ssa.Call:
			if _, isB := x.Call.Value.(*ssa.Builtin); isB && !x.Call.IsInvoke() {
				return false
			}
			return true
		case *ssa.UnOp:
			if x.Op != token.MUL {
				return false
			}
			return sameField(x.X) || resolveLocal(x.X) == base
		}
		return false
	}
	w, bad := core.Reach(core.Q{From: []core.At{core.After(st)}, Target: observe, Blocked: overwrite, Cut: core.CutSet(cut)})
	if bad {
		return w
	}
	return nil
}
