package props

import (
	"go/token"
	"go/types"
	"sort"

	"godcheck/core"

	"golang.org/x/tools/go/ssa"
)

// Round 10 (missed seeded change C16-vm2): the flusher kept its ticker in a field of the executor
// ("reuse the ticker when the flusher is started again") while the retiring flusher still stopped
// it. Every flusher started after the first idle retirement selected on a stopped ticker, which
// never fires: tasks that stay below the size threshold were flushed by no tick, and that flusher
// never retired either.
//
// The necessary condition is stated on the OBJECT the tick arm of the flusher's select receives
// from: where can it come from (created by this incarnation / kept in memory that outlives an
// incarnation), and is an object of that origin ever stopped.

// c16Origin: where a ticker value can come from.
type c16Origin struct {
	kind string    // "fresh": result of a call that creates it; "kept": read from memory that outlives the flusher incarnation; "unknown"
	key  string    // kept: the field / global it is read from
	at   ssa.Value // fresh: the creating call; kept/unknown: the value not resolved further
}

type c16Origins struct {
	funcs []*ssa.Function
	inPkg map[*ssa.Function]bool
}

// creatorSite: the MakeClosure that creates closure g (unique in the package), or nil.
func (w *c16Origins) creatorSite(g *ssa.Function) *ssa.MakeClosure {
	var site *ssa.MakeClosure
	n := 0
	for _, f := range w.funcs {
		for _, b := range f.Blocks {
			for _, in := range b.Instrs {
				if mc, ok := in.(*ssa.MakeClosure); ok && mc.Fn == ssa.Value(g) {
					site = mc
					n++
				}
			}
		}
	}
	if n != 1 {
		return nil
	}
	return site
}

// storesBefore: the stores to field tf that every path of g (and, for a closure, of the function
// that creates it, up to the creation) to `at` has passed – nil when some path passes none.
func (w *c16Origins) storesBefore(g *ssa.Function, at ssa.Instruction, tf string, depth int) []*ssa.Store {
	if g == nil || depth > 4 {
		return nil
	}
	if sts := core.StoresToField(g, tf); len(sts) > 0 && core.Precedes(g, core.IsStoreToField(tf), core.Is(at)) == nil {
		return sts
	}
	if g.Parent() != nil {
		if mc := w.creatorSite(g); mc != nil {
			return w.storesBefore(mc.Parent(), mc, tf, depth+1)
		}
	}
	return nil
}

// cellStores: the values stored into the local variable cell (an Alloc, possibly captured by
// closures that write it through their free variable).
func (w *c16Origins) cellStores(cell ssa.Value, seen map[ssa.Value]bool, out *[]ssa.Value) {
	if cell == nil || seen[cell] {
		return
	}
	seen[cell] = true
	refs := cell.Referrers()
	if refs == nil {
		return
	}
	for _, r := range *refs {
		switch x := r.(type) {
		case *ssa.Store:
			if x.Addr == cell {
				*out = append(*out, x.Val)
			}
		case *ssa.MakeClosure:
			g, _ := x.Fn.(*ssa.Function)
			if g == nil {
				continue
			}
			for i, b := range x.Bindings {
				if b == cell && i < len(g.FreeVars) {
					w.cellStores(g.FreeVars[i], seen, out)
				}
			}
		}
	}
}

// cellRoot follows a captured-by-reference free variable outwards to the Alloc it denotes.
func c16CellRoot(v ssa.Value) *ssa.Alloc {
	for i := 0; i < 8; i++ {
		switch x := v.(type) {
		case *ssa.Alloc:
			return x
		case *ssa.FreeVar:
			v = freeVarBinding(x)
			if v == nil {
				return nil
			}
		default:
			return nil
		}
	}
	return nil
}

// of lists the origins of the object v denotes.
func (w *c16Origins) of(v ssa.Value) []c16Origin {
	var out []c16Origin
	seen := map[ssa.Value]bool{}
	add := func(o c16Origin) {
		for _, x := range out {
			if x == o {
				return
			}
		}
		out = append(out, o)
	}
	var walk func(v ssa.Value, depth int)
	result := func(c *ssa.Call, idx, depth int) {
		var body *ssa.Function
		if !c.Call.IsInvoke() {
			if g := c.Call.StaticCallee(); g != nil {
				if g.Blocks != nil && (w.inPkg[g] || g.Parent() != nil) {
					body = g
				}
			} else if fv, ok := c16ResolveFn(c.Call.Value); ok && fv.body != nil && (w.inPkg[fv.body] || fv.body.Parent() != nil) {
				body = fv.body
			}
		}
		if body == nil {
			// a constructor outside the package, an interface method, the injected factory (a
			// function value read from a field): the object is made by this call
			add(c16Origin{kind: "fresh", at: c})
			return
		}
		n := 0
		for _, ret := range core.Returns(body) {
			if idx < len(ret.Results) {
				n++
				walk(ret.Results[idx], depth+1)
			}
		}
		if n == 0 {
			add(c16Origin{kind: "unknown", at: c})
		}
	}
	walk = func(v ssa.Value, depth int) {
		if v == nil {
			return
		}
		v = core.Strip(v)
		if seen[v] {
			return
		}
		seen[v] = true
		if depth > 12 {
			add(c16Origin{kind: "unknown", at: v})
			return
		}
		switch x := v.(type) {
		case *ssa.Const:
			if x.Value != nil {
				add(c16Origin{kind: "unknown", at: v})
			}
		case *ssa.Phi:
			for _, e := range x.Edges {
				walk(e, depth+1)
			}
		case *ssa.Call:
			result(x, 0, depth)
		case *ssa.Extract:
			switch t := x.Tuple.(type) {
			case *ssa.Call:
				result(t, x.Index, depth)
			case *ssa.TypeAssert:
				if x.Index == 0 {
					walk(t.X, depth+1)
				}
			default:
				add(c16Origin{kind: "unknown", at: v})
			}
		case *ssa.TypeAssert:
			walk(x.X, depth+1)
		case *ssa.Parameter:
			g := x.Parent()
			idx := -1
			for i, p := range g.Params {
				if p == x {
					idx = i
				}
			}
			n := 0
			for _, f := range w.funcs {
				for _, b := range f.Blocks {
					for _, in := range b.Instrs {
						c := core.AsCall(in)
						if c == nil || c.Common().IsInvoke() || c.Common().StaticCallee() != g || idx < 0 || idx >= len(c.Common().Args) {
							continue
						}
						n++
						walk(c.Common().Args[idx], depth+1)
					}
				}
			}
			if n == 0 {
				add(c16Origin{kind: "unknown", at: v})
			}
		case *ssa.FreeVar:
			// captured by value (a variant of the program): what the creation site binds
			if b := freeVarBinding(x); b != nil {
				walk(b, depth+1)
			} else {
				add(c16Origin{kind: "unknown", at: v})
			}
		case *ssa.UnOp:
			if x.Op != token.MUL {
				add(c16Origin{kind: "unknown", at: v})
				return
			}
			if fw := core.ForwardField(x); fw != ssa.Value(x) {
				walk(fw, depth+1)
				return
			}
			switch a := x.X.(type) {
			case *ssa.Alloc, *ssa.FreeVar:
				root := c16CellRoot(a)
				if root == nil {
					add(c16Origin{kind: "unknown", at: v})
					return
				}
				var vals []ssa.Value
				w.cellStores(root, map[ssa.Value]bool{}, &vals)
				for _, s := range vals {
					walk(s, depth+1)
				}
			case *ssa.FieldAddr:
				tf := core.FieldAddrName(a)
				if sts := w.storesBefore(x.Parent(), x, tf, 0); sts != nil {
					// (re)assigned by this incarnation before it is read
					for _, st := range sts {
						walk(st.Val, depth+1)
					}
					return
				}
				add(c16Origin{kind: "kept", key: "field " + tf, at: v})
			case *ssa.Global:
				add(c16Origin{kind: "kept", key: "variable " + a.Name(), at: v})
			default:
				add(c16Origin{kind: "unknown", at: v})
			}
		default:
			add(c16Origin{kind: "unknown", at: v})
		}
	}
	walk(v, 0)
	return out
}

func c16HasMethod(t types.Type, name string) bool {
	ms := types.NewMethodSet(t)
	for i := 0; i < ms.Len(); i++ {
		if ms.At(i).Obj().Name() == name {
			return true
		}
	}
	return false
}

func c16IsTimeTicker(t types.Type) bool {
	if p, ok := t.Underlying().(*types.Pointer); ok {
		t = p.Elem()
	}
	n, ok := t.(*types.Named)
	return ok && n.Obj().Pkg() != nil && n.Obj().Pkg().Path() == "time" && (n.Obj().Name() == "Ticker" || n.Obj().Name() == "Timer")
}

// c16Stoppable: a periodic source that can be stopped (timex.Ticker, *time.Ticker, anything with Stop).
func c16Stoppable(t types.Type) bool { return c16HasMethod(t, "Stop") }

// c16MethodRecv: in is a call of method `name` (interface or static) → its receiver.
func c16MethodRecv(in ssa.Instruction, name string) ssa.Value {
	c := core.AsCall(in)
	if c == nil {
		return nil
	}
	cc := c.Common()
	if cc.IsInvoke() {
		if cc.Method.Name() == name {
			return cc.Value
		}
		return nil
	}
	g := cc.StaticCallee()
	if g == nil || g.Name() != name || g.Signature.Recv() == nil || len(cc.Args) == 0 {
		return nil
	}
	return cc.Args[0]
}

// c16TickSource: the stoppable object the channel value ch is obtained from (`t.Chan()`, `t.C`);
// plain=true when ch is the result of a call that has no such object (time.After, time.Tick).
func c16TickSource(ch ssa.Value) (src ssa.Value, plain bool) {
	ch = core.Strip(core.Forward(ch))
	switch x := ch.(type) {
	case *ssa.Call:
		cc := x.Common()
		if cc.IsInvoke() {
			if c16Stoppable(cc.Value.Type()) {
				return cc.Value, false
			}
			return nil, false
		}
		if g := cc.StaticCallee(); g != nil {
			if g.Signature.Recv() != nil && len(cc.Args) > 0 {
				if c16Stoppable(cc.Args[0].Type()) {
					return cc.Args[0], false
				}
				return nil, false
			}
			if g.Pkg != nil && g.Pkg.Pkg.Path() == "time" {
				return nil, true
			}
		}
	case *ssa.UnOp:
		if x.Op == token.MUL {
			if fa, ok := x.X.(*ssa.FieldAddr); ok && c16IsTimeTicker(fa.X.Type()) {
				return fa.X, false
			}
		}
	}
	return nil, false
}

func c16Round10(r *core.Run, e *c16Env) {
	p := e.p
	r.Explanation += " The ticker the flusher's loop receives its periodic tick from is either created by that flusher incarnation (the result of a call made by the flusher, by the function that starts it, or assigned to a field on every path before it is read) or, when it is read from memory that outlives an incarnation (a field of the executor, a package variable), never stopped anywhere in the package; and no flusher goes on selecting after it stopped its own ticker."
	r.NotDecided += " For the flusher's ticker: that the injected factory (pe.newTicker) and constructors outside the package return a new, running ticker with the executor's interval on every call; tickers handed to the flusher through captures or arguments are taken to be created once per start."
	r.Check("D4/K8/restarted-flusher-ticks-on-live-ticker", "the periodic-tick arm of the flusher's select receives from a ticker that is running for the whole life of that flusher incarnation: the ticker is created by this incarnation (result of a call made in the flusher or handed to it by the function that starts it), or – when it is read from memory that outlives an incarnation (a field of the executor, a package variable) – no function of the package ever stops a ticker of that origin; and the flusher does not return to its select after it stopped the ticker [a retiring flusher stops its ticker; a flusher started again by a later Add that selects on the stopped ticker never receives a tick: tasks added after the first idle retirement that stay below the size/byte threshold are never passed to the execute function by `the periodic tick`, and that flusher never retires – `including the background flusher retiring after an idle period and being restarted by a later Add`]", func(o *core.O) {
		fl := e.flusher
		if !o.Need(fl != nil && e.flSel != nil, "the flusher's loop (a select that receives from pe.commander)") {
			return
		}
		r.Fn(core.FuncName(fl))
		w := &c16Origins{funcs: e.funcs, inPkg: e.inPkg}
		// every stop of a periodic source in the package
		type stop struct {
			in   ssa.Instruction
			recv ssa.Value
			org  []c16Origin
		}
		var stops []stop
		for _, f := range e.funcs {
			for _, b := range f.Blocks {
				for _, in := range b.Instrs {
					recv := c16MethodRecv(in, "Stop")
					if recv == nil {
						continue
					}
					if !(c16HasMethod(recv.Type(), "Chan") || c16IsTimeTicker(recv.Type())) {
						continue
					}
					stops = append(stops, stop{in: in, recv: recv})
				}
			}
		}
		same := func(a, b []c16Origin) *c16Origin {
			for i := range a {
				for _, y := range b {
					if a[i].kind == "unknown" || y.kind != a[i].kind {
						continue
					}
					if (a[i].kind == "kept" && a[i].key == y.key) || (a[i].kind == "fresh" && a[i].at == y.at) {
						return &a[i]
					}
				}
			}
			return nil
		}
		arms := 0
		for _, st := range e.flSel.States {
			if st.Dir != types.RecvOnly || chanID(st.Chan) == "field:PeriodicalExecutor.commander" {
				continue
			}
			src, plain := c16TickSource(st.Chan)
			if plain {
				arms++ // a channel of the time package made for this wait: nothing can stop it
				continue
			}
			if src == nil {
				o.Unres("%s: the flusher's select receives from %s: which ticker that channel belongs to is not understood", p.InstrPos(e.flSel), core.Describe(st.Chan))
				continue
			}
			arms++
			org := w.of(src)
			var kept []c16Origin
			fresh := 0
			for _, x := range org {
				switch x.kind {
				case "kept":
					kept = append(kept, x)
				case "fresh":
					fresh++
				default:
					o.Unres("%s: where the flusher's ticker comes from is not understood (%s)", p.InstrPos(e.flSel), core.Describe(x.at))
				}
			}
			if len(kept) == 0 && fresh == 0 && o.OK() {
				o.Unres("%s: no origin of the flusher's ticker found", p.InstrPos(e.flSel))
			}
			sort.Slice(kept, func(i, j int) bool { return kept[i].key < kept[j].key })
			for i := range stops {
				s := &stops[i]
				if s.org == nil {
					s.org = w.of(s.recv)
				}
				// (a) a ticker inherited from an earlier incarnation that some function stops
				if len(kept) > 0 {
					hit := same(kept, s.org)
					if hit == nil && core.Forward(s.recv) == core.Forward(src) {
						hit = &kept[0]
					}
					if hit != nil {
						o.Fail(p.InstrPos(e.flSel), "the flusher takes its periodic tick from a ticker it can inherit from an earlier incarnation (%s), and %s stops that ticker (%s): a stopped ticker never fires, so a flusher started again after an idle retirement gets no tick – tasks added then that stay below the threshold are flushed by no tick, and that flusher never retires", hit.key, core.FuncName(s.in.Parent()), p.InstrPos(s.in))
						continue
					}
				}
				// (b) stopped by the flusher itself, which then goes on selecting on it
				if _, plainCall := s.in.(*ssa.Call); plainCall && s.in.Parent() == fl {
					if core.Forward(s.recv) == core.Forward(src) || same(org, s.org) != nil {
						if _, again := core.Reach(core.Q{From: []core.At{core.After(s.in)}, Target: core.Is(e.flSel)}); again {
							o.Fail(p.InstrPos(s.in), "the flusher stops its ticker and then waits in its select again: the stopped ticker never fires, added tasks below the threshold are flushed by no tick and the flusher never retires")
						}
					}
				}
			}
		}
		if arms == 0 && o.OK() {
			o.Unres("%s: the flusher's select has no arm that receives a periodic tick", p.InstrPos(e.flSel))
		}
		o.Site(arms+len(stops), core.FuncName(fl))
	})
}
