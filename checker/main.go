// godcheck decides structural necessary conditions of the properties in
// /verif/properties.jsonl on the current source of the repository.
package main

import (
	"flag"
	"fmt"
	"os"
	"regexp"
	"strconv"

	"godcheck/core"
	"godcheck/props"
)

func main() {
	prop := flag.String("property", "", "property id (C01..C20)")
	tier := flag.String("tier", "quick", "quick|thorough")
	repo := flag.String("repo", "/repo", "repository root")
	verif := flag.String("verif", "/verif", "verif root (evidence, known findings)")
	only := flag.String("only", "", "regexp: evaluate/report only matching obligations (replay)")
	list := flag.Bool("list", false, "list obligations")
	flag.Parse()
	seed, _ := strconv.ParseInt(os.Getenv("VERIF_SEED"), 10, 64)
	if t := os.Getenv("VERIF_TIER"); t != "" && *tier == "" {
		*tier = t
	}
	rule, ok := props.Registry[*prop]
	if !ok {
		fmt.Printf("unknown property %q\n", *prop)
		os.Exit(2)
	}
	all := *tier == "thorough" && rule.NeedsAll
	p, err := core.Load(*repo, all)
	if err != nil {
		// fail closed through the VIOLATION interface
		r := core.NewRun(*prop, *tier, &core.Prog{Repo: *repo})
		r.Check("loader", "the repository loads and type-checks", func(o *core.O) { o.Unres("%v", err) })
		os.Exit(finish(r, *verif, seed))
	}
	r := core.NewRun(*prop, *tier, p)
	if *only != "" {
		r.Only = regexp.MustCompile(*only)
	}
	props.RunAll(*prop, r)
	if *list {
		for _, o := range r.Obl {
			fmt.Printf("%-10s %-70s sites=%d\n", o.Verdict, o.Key, o.Sites)
		}
	}
	os.Exit(finish(r, *verif, seed))
}

func finish(r *core.Run, verif string, seed int64) int { return r.Finish(verif, seed) }
