// godcheck decides structural necessary conditions of the properties in
// /verif/properties.jsonl on the current source of the repository.
package main

import (
	"strings"
	"flag"
	"fmt"
	"os"
	"regexp"
	"strconv"

	"godcheck/core"
	"godcheck/props"

	"golang.org/x/tools/go/ssa"
)

func main() {
	ssa.DebugSROA = os.Getenv("GODCHECK_DEBUG_SROA") != ""
	prop := flag.String("property", "", "property id (C01..C20)")
	tier := flag.String("tier", "quick", "quick|thorough")
	repo := flag.String("repo", "/repo", "repository root")
	verif := flag.String("verif", "/verif", "verif root (evidence, known findings)")
	only := flag.String("only", "", "regexp: evaluate/report only matching obligations (replay)")
	list := flag.Bool("list", false, "list obligations")
	noVariants := flag.Bool("no-variants", false, "evaluate only the program as written (no inlined variants)")
	dumpFuncs := flag.Bool("dump-funcs", false, "print the names of all top-level functions and methods of the main module (baseline for the inlining variants)")
	selftest := flag.Bool("selftest-inline", false, "build the inlined variants of the program and run go/ssa's sanity checker on every function")
	dumpVariant := flag.String("dump-variant", "", "debug: LEVEL:pkg/rel:funcSubstring – print the SSA of the matching functions in that variant of the program")
	flag.Parse()
	if *dumpVariant != "" {
		parts := strings.SplitN(*dumpVariant, ":", 3)
		lvl, _ := strconv.Atoi(parts[0])
		p, err := core.Load(*repo, false)
		if err != nil || len(parts) != 3 {
			fmt.Println(err)
			os.Exit(2)
		}
		if lvl > 0 {
			p = p.Variant(lvl)
		}
		for _, f := range p.PkgFuncs(parts[1]) {
			if strings.Contains(core.FuncName(f), parts[2]) {
				f.WriteTo(os.Stdout)
			}
		}
		os.Exit(0)
	}
	seed, _ := strconv.ParseInt(os.Getenv("VERIF_SEED"), 10, 64)
	if t := os.Getenv("VERIF_TIER"); t != "" && *tier == "" {
		*tier = t
	}
	if *dumpFuncs {
		p, err := core.Load(*repo, false)
		if err != nil {
			fmt.Println(err)
			os.Exit(2)
		}
		for _, n := range p.AllFuncNames() {
			fmt.Println(n)
		}
		for _, n := range p.AllTypeNames() {
			fmt.Println(n)
		}
		os.Exit(0)
	}
	if *selftest {
		p, err := core.Load(*repo, false)
		if err != nil {
			fmt.Println(err)
			os.Exit(2)
		}
		bad := 0
		core.IgnoreBaseline = true
		for lvl := 1; lvl <= 2; lvl++ {
			v := p.Variant(lvl)
			n := 0
			for rel := range v.SSAPkgs {
				for _, f := range core.SSAPkgFuncs(v.SSA, v.SSAPkgs[rel]) {
					n++
					if !ssa.SanityCheckFunction(f, os.Stdout) {
						bad++
					}
				}
			}
			fmt.Printf("variant %d: %d helpers inlined and hidden, %d functions sanity-checked, %d bad\n", lvl, len(v.Inlined), n, bad)
		}
		if bad > 0 {
			os.Exit(1)
		}
		os.Exit(0)
	}
	rule, ok := props.Registry[*prop]
	if !ok {
		fmt.Printf("unknown property %q\n", *prop)
		os.Exit(2)
	}
	all := *tier == "thorough" && rule.NeedsAll
	p, err := core.Load(*repo, all)
	if err != nil {
		// fail closed through the VIOLATION interface
		r := core.NewRun(*prop, *tier, &core.Prog{Repo: *repo})
		r.Check("loader", "the repository loads and type-checks", func(o *core.O) { o.Unres("%v", err) })
		os.Exit(finish(r, *verif, seed))
	}
	run := func(pp *core.Prog) *core.Run {
		r := core.NewRun(*prop, *tier, pp)
		if *only != "" {
			r.Only = regexp.MustCompile(*only)
		}
		props.RunAll(*prop, r)
		return r
	}
	r := run(p)
	// The rule tables are intra-procedural. When they do not hold on the program
	// as written, they are evaluated again on behaviour-equivalent variants in
	// which small single-purpose helpers are inlined (core.Prog.Variant): a helper
	// extracted from an anchored function must not raise an alarm. The check
	// passes when it holds on the program or on one of these variants.
	if r.Failing(*verif) > 0 && !*noVariants {
		var variantRuns []*core.Run
		passed := false
		for lvl := 1; lvl <= 2; lvl++ {
			pv := p.Variant(lvl)
			rv := run(pv)
			variantRuns = append(variantRuns, rv)
			if os.Getenv("GODCHECK_DEBUG_VARIANTS") != "" {
				fmt.Printf("debug: variant %d: %d failing; inlined %d helpers, %d structs split\n", lvl, rv.Failing(*verif), len(pv.Inlined), pv.Split)
				for _, o := range rv.Obl {
					if o.Verdict != core.Held {
						fmt.Printf("debug:   %s %s :: %v\n", o.Verdict, o.Key, o.Msgs)
					}
				}
			}
			if rv.Failing(*verif) == 0 {
				rv.Extra["evaluated_on"] = fmt.Sprintf("inlined variant %d of the program (the rules did not hold on the program as written: %d obligations; helpers inlined at every use: %v)", lvl, r.Failing(*verif), pv.Inlined)
				fmt.Printf("note: %s holds on inlined variant %d (not on the program as written); %d helpers inlined\n", *prop, lvl, len(pv.Inlined))
				r = rv
				passed = true
				break
			}
		}
		_ = passed
		_ = variantRuns
	}
	if *list {
		for _, o := range r.Obl {
			fmt.Printf("%-10s %-70s sites=%d\n", o.Verdict, o.Key, o.Sites)
			if os.Getenv("GODCHECK_LIST_RULES") != "" {
				fmt.Printf("    rule: %s\n", o.Rule)
			}
		}
	}
	os.Exit(finish(r, *verif, seed))
}

func finish(r *core.Run, verif string, seed int64) int { return r.Finish(verif, seed) }
