#!/bin/sh
# self-test of the checker on the mutant/refactor corpus of one property; never affects the check's verdict on /repo
python3 /verif/tools/corpus.py "$1" -j 8 || true
exit 0
