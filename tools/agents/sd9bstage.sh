#!/bin/bash
# sd9bstage.sh Cnn : stages /tmp/sd9bout-Cnn/mK as /tmp/sd9bstage/Cnn/Cnn-wmK, verifies each, runs the check on each
P=$1; rm -rf /tmp/sd9bstage/$P; mkdir -p /tmp/sd9bstage/$P
for m in /tmp/sd9bout-$P/m*; do [ -f $m/patch.diff ] || continue; k=$(basename $m | tr -d m); d=/tmp/sd9bstage/$P/$P-xm$k; cp -r $m $d
  python3 - $d $P <<'PY'
import json,sys
p=sys.argv[1]+'/meta.json'
try: m=json.load(open(p))
except Exception: m={}
m['property']=sys.argv[2]; m['round']=9; json.dump(m,open(p,'w'),indent=1,ensure_ascii=False)
PY
  echo "##### $P-xm$k: $(python3 -c "import json;print(json.load(open('$d/meta.json')).get('summary','')[:300])")"
  /tmp/verify9.sh $d 2>&1 | tail -12
done
cd /verif && python3 tools/seeded.py /tmp/sd9bstage/$P
