import re,subprocess,glob,collections
old=subprocess.run(['git','-C','/verif','show','65e05d2:OBLIGATIONS.md'],capture_output=True,text=True).stdout
def km(t): return {m.group(1):m.group(2) for m in re.finditer(r'^- `([^`]+)` \(\d+\) — (.*)$',t,re.M)}
o=km(old); n=km(open('/verif/OBLIGATIONS.md').read())
by=collections.defaultdict(list)
for k in sorted(n):
    if k not in o or o[k]!=n[k]:
        r=k[4:]
        if r not in by[k[:3]]: by[k[:3]].append(r)
p='/verif/DESIGN.md'
lines=open(p).read().split('\n'); out=[]; cur=None; tot=0
for ln in lines:
    m=re.match(r'### (C\d\d) ',ln)
    if m:
        cur=m.group(1)
        res=subprocess.run(['/verif/check',cur,'quick'],capture_output=True,text=True).stdout
        nn=int(re.search(r'obligations=(\d+)',res).group(1)); tot+=nn
        ln=re.sub(r'level other, \d+ obligations','level other, %d obligations'%nn,ln)
    if ln.startswith('A7 ') and cur: continue
    if ln.startswith('T  ') and cur:
        if by.get(cur):
            out.append('A7 added or restated in round 7 (seeds `'+cur+'-vm*` of §9, refactorings of §10 "sixth round"; rule texts in OBLIGATIONS.md): '+', '.join('`%s`'%x for x in by[cur])+'.')
        ps=glob.glob(f'/verif/corpus/{cur}/*.patch')
        mu=sum(1 for f in ps if re.search(r'^# kind: mutant',open(f).read(),re.M)); rf=len(ps)-mu
        ln=re.sub(r' ?Corpus \d+ mutants / \d+ refactors \(all detected / silent on the final tree\)\.','',ln).rstrip()
        ln+=f' Corpus {mu} mutants / {rf} refactors (all detected / silent on the final tree).'
        cur_done=cur
    out.append(ln)
s='\n'.join(out)
s=re.sub(r'mkobligations\.sh`, \d+ obligations\)','mkobligations.sh`, %d obligations)'%tot,s)
open(p,'w').write(s); print(tot)
