import subprocess,re
p='/verif/DESIGN.md'
s=open(p).read()
fixed=subprocess.run(['python3','/verif/tools/agents/mk_hunt_fixed_table.py'],capture_output=True,text=True).stdout
allf=subprocess.run(['python3','/verif/tools/agents/mk_hunt_section.py'],capture_output=True,text=True).stdout
nfix=len([l for l in fixed.splitlines() if l.startswith('| H')])
sec=f'''<!--HUNT-BEGIN-->
### 5.1 Defect hunt on the repaired tree (hours 17–21): findings of the hunting agents

After six seeding rounds the seeding agents' side remarks ("seen on HEAD, not seeded") had led to seven genuine
defects (§5 rows 13–23). That was turned into a deliberate round: for every property a fresh sub-agent got the
property text and a worktree and was asked to *violate the property on the unmodified code* and to prove each case
with a deterministic demo and a proposed minimal repair. They delivered {len([l for l in allf.splitlines() if l.strip()])} findings (`triage/h7/Cnn-fK/`: demo, proposed fix,
meta). Each was reproduced by a script in a scratch worktree (demo fails on HEAD, passes with the fix, the touched
packages' unedited tests pass) and then judged by the main session against the brief's bar for a repair — a patch a
maintainer would accept: corrects the behaviour, small, no API change, the unedited suite still passes. {nfix} were
repaired (one `fix:` commit each); for each of them a sub-agent working on a private copy of the checker wrote or
restated a rule that is **violated on the tree before the fix and held after it**, with a `reintroduce-*` corpus mutant (the
reverse of the fix commit), further mutants, refactorings the rule must stay silent on, and hand-rebased every
self-test patch the fix had made stale. The remaining findings are listed as observed: they are outside what a small
repair can do (a wire-format or API decision, a redesign of a locking or ownership protocol, behaviour an existing test
asserts), and for most of them no sound static rule short of that redesign exists.

Several repairs restate rules that had *pinned the defect*: C12's `int(duration/time.Second)` conversion shape and its
tabled exceptions for `Ping`/`ScriptLoad`, C08's "timestamp key stores now" and `Every(time.Second/rate)`, C20's
ASCII-only word boundary, C13's "Remove deletes a key whenever the search found it", the `recover() != nil` shape in
C01/C02/C11. That is the honest limit of rules written from the code: a rule that describes today's formula certifies
today's defect with it; only a rule stated from the property (here, after a counter-example) does not.

Repaired (in addition to §5 rows 1–23):

{fixed}

All findings and what was decided:

| finding | title | decision |
|---|---|---|
{allf}
<!--HUNT-END-->
'''
if '<!--HUNT-BEGIN-->' in s:
    s=re.sub(r'<!--HUNT-BEGIN-->.*?<!--HUNT-END-->\n',lambda m:sec,s,flags=re.S)
else:
    anchor='**Known finding (recorded, not repaired).**'
    assert s.count(anchor)==1
    s=s.replace(anchor,sec+'\n'+anchor,1)
open(p,'w').write(s)
print('ok',nfix)
