import json,re
k=json.load(open('/verif/known_findings.json'))['findings']
# entries added by the hunt = those after the first 26 (index >= 26)? identify by commit order: take entries whose what_fails starts with fixed: and commit not in the early set
early={'8ad688b','45aba46','7133d32','491f8c2','4548bd1','b24fe9c','0509647','01a6781','25d8062','ac99deb','88892d3','5b72d76','9e2c139','060e7f5','28de06c','c2bf88a','194eb49','f030747','c5ac1cd','633b247','dd368e2','8fcd7bd','4d83ec4','6856f0b'}
rows=[];seen=set();n=0
for e in k:
    if e.get('status')!='fixed' or e.get('commit') in early: continue
    c=e['commit']
    if c in seen: 
        # twin entry (imported obligation): append the obligation to the existing row
        for r in rows:
            if r[2]==c: r[0]+=', '+re.sub(r'^C\d+-','',e['obligation'])+' ('+e['property']+')'
        continue
    seen.add(c)
    w=re.sub(r'^fixed: property=C\d+ \w+ ','',e['what_fails']).replace('|','/')
    rows.append([e['obligation'],w,c])
out=['| # | obligation that decides it | what failed on the pinned tree (demo in `triage/h7/`) | repair |','|---|---|---|---|']
for i,r in enumerate(rows,1): out.append(f'| H{i} | {r[0]} | {r[1]} | {r[2]} |')
print('\n'.join(out))
