#!/bin/bash
# merge_fx.sh <Cnn> [base]: cherry-picks the fix commits of /tmp/fx9-<Cnn> onto /repo main, copies OUT/verif into /verif, rebuilds, runs the check
P=$1; R=/tmp/fx9-$P; OUT=/tmp/fx9out-$P; BASE=${2:-9c70b38}
cd /repo || exit 1
[ -n "$(git status --short)" ] && { echo "/repo dirty"; exit 1; }
for h in $(git -C $R log --reverse --format=%H $BASE..HEAD); do
  msg=$(git -C $R log --format=%s -1 $h)
  case "$msg" in fix:*) ;; *) echo "SKIP non-fix commit $h $msg"; continue;; esac
  if git cherry-pick $h >/dev/null 2>&1; then echo "picked $(git log --format='%h %s' -1)"; else echo "CONFLICT cherry-pick $h ($msg)"; git cherry-pick --abort; exit 1; fi
done
if [ -d $OUT/verif ]; then rsync -a $OUT/verif/ /verif/; echo "copied $(find $OUT/verif -type f | wc -l) files"; fi
cd /verif/checker && GOFLAGS=-mod=vendor go build -o ../bin/godcheck . || exit 1
cd /verif && ./check $P quick | tail -3 | cut -c1-300
