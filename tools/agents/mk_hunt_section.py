import json,glob,os,re,subprocess
acc={'C01-f1','C01-f2','C02-f2','C02-f4','C02-f5','C03-f2','C04-f1','C05-f1','C05-f6','C05-f7','C05-f10','C05-f12','C06-f1','C07-f1','C07-f2','C08-f1','C08-f2','C08-f3','C09-f1','C10-f1','C11-f1','C11-f3','C11-f4','C11-f5','C12-f1','C12-f2','C12-f3','C13-f1','C14-f1','C16-f2','C17-f2','C18-f1','C18-f2','C19-f1','C19-f2','C19-f3','C20-f1','C20-f2'}
why={
'C01-f3':'needs a handler that calls WriteHeader after the status was committed; the repair changes what a write-then-panic handler records',
'C02-f1':'the repair changes an assertion of the existing test TestEngine_withTimeout (9/10 factor), which the brief forbids',
'C02-f3':'repair threads a ref-counted slot through the request context (larger than a maintainer-sized patch)',
'C03-f1':'a pattern repeating a :name is not a duplicate pattern; rejecting it changes the registration API',
'C04-f2':'overflow inside golang-jwt\'s numeric-date conversion (trusted library); the guard belongs upstream',
'C05-f2':'round-trip of time.Duration needs a wire-format decision (client and parser)','C05-f3':'httpc rendering of pointers/slices/maps: wire-format decision','C05-f4':'Marshal flattening of embedded structs: larger change of lib/mapping\'s Marshal','C05-f5':'canonical-key handling of optional embedded structs / optional=dep: larger change','C05-f8':'element-wise options/range: new feature','C05-f9':'Marshal omitting optional zero members: wire-format decision','C05-f11':'absent required map filled with an empty map is upstream\'s documented behaviour for containers',
'C07-f3':'repair restructures channel ownership (output never closed)',
'C08-f4':'repair adds a mutex-guarded clock clamp around the fallback limiter',
'C09-f2':'the 1000 ms start value may be an intended cap',
'C11-f2':'40-line change of the tag map construction',
'C12-f4':'classification of error replies is a design choice of the wrapper',
'C14-f2':'resampling change of Pick','C14-f3':'changes the choice among N>=3 (statistical clause)',
'C15-f1':'ordering by ModRevision plus publication ranks: larger change of registry.go','C15-f2':'one watcher per key: larger change of monitor',
'C16-f1':'repair adds a sync.Cond to Wait',
'C17-f1':'repair adds per-Set version numbers to Cache',
'C18-f3':'needs a Clean without a matching Use (caller misuse); lower confidence',
'C19-f4':'local-offset timestamps compared as strings across a UTC-offset change; the time zone is not in the quantifier\'s configuration list',
'C20-f3':'strings.Title capitalising after punctuation: the quantifier does not name punctuation inside words',
}
fixed={}
log=subprocess.run(['git','-C','/repo','log','--format=%h %s','-60'],capture_output=True,text=True).stdout
out=[]
for m in sorted(glob.glob('/verif/triage/h7/*/meta.json'), key=lambda p:(p.split('/')[-2].split('-')[0], int(re.sub(r'\D','',p.split('/')[-2].split('-')[1])))):
    k=os.path.basename(os.path.dirname(m))
    try: j=json.load(open(m))
    except: continue
    t=j.get('title','').replace('|','/').replace('\n',' ')
    if k in acc: d='accepted → repaired, see §5 / known_findings.json (`fixed`)'
    else: d='observed, unrepaired: '+why.get(k,'')
    out.append(f'| {k} | {t[:260]} | {d} |')
print('\n'.join(out))
