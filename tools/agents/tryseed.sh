#!/bin/sh
# tryseed.sh <checker-bin> <seed-dir|none> <prop>  : applies seed to scratch copy and runs prop
B=$1; S=$2; P=$3
D=$(mktemp -d /tmp/tryseed.XXXXXX)
rsync -a --exclude .git /repo/ $D/repo/
if [ "$S" != none ]; then (cd $D/repo && patch -p1 -s -f --no-backup-if-mismatch -i $S/patch.diff) || echo "PATCH FAILED"; fi
mkdir -p $D/verif/evidence; cp /verif/known_findings.json $D/verif/
$B -property $P -tier quick -repo $D/repo -verif $D/verif | grep -E "^(VIOLATION C|UNRESOLVED|  [a-z].*\.go:[0-9]+|C[0-9]+ quick)" | cut -c1-420
rm -rf $D
