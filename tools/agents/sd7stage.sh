#!/bin/bash
# sd7stage.sh Cnn : copies /tmp/sd7out-Cnn/mK into /tmp/sd7stage/Cnn-vmK and runs the check on each
P=$1; mkdir -p /tmp/sd7stage
for m in /tmp/sd7out-$P/m*; do [ -f $m/patch.diff ] || continue; k=$(basename $m | tr -d m); d=/tmp/sd7stage/$P-vm$k; rm -rf $d; cp -r $m $d
  python3 - $d $P <<'PY'
import json,sys
p=sys.argv[1]+'/meta.json'
try: m=json.load(open(p))
except Exception: m={}
m['property']=sys.argv[2]; m['round']=7; json.dump(m,open(p,'w'),indent=1,ensure_ascii=False)
PY
  echo "== $P-vm$k: $(python3 -c "import json;print(json.load(open('$d/meta.json')).get('summary','')[:200])")"
  /tmp/tryseed.sh /verif/bin/godcheck $d $P | head -6
done
