#!/bin/bash
# verify5.sh <seed-dir>: demo passes on HEAD, fails with patch; package tests pass with patch (demo absent)
S=$1; N=$(basename $S)
export GOFLAGS=-mod=mod GOPROXY=off GOSUMDB=off GOTOOLCHAIN=local GOCACHE=/dev/shm/v5cache
f=$(ls $S/demo/*_test.go | head -1)
path=$(head -15 $f | grep -o -m1 '[a-z][a-zA-Z0-9_/]*/[a-zA-Z0-9_]*_test\.go')
T=$(dirname $path)
W=$(mktemp -d /tmp/v5.XXXXXX); rmdir $W
git -C /repo worktree add -q --detach $W HEAD || { echo "$N worktree failed"; exit 2; }
cp /repo/go.sum $W/
cp $S/demo/*_test.go $W/$T/
run=$(grep -ho 'func Test[A-Za-z0-9_]*' $S/demo/*_test.go | sed 's/func //' | paste -sd'|')
cd $W
h=$(go test -vet=off -count=1 -run "^($run)\$" ./$T/ 2>&1 | tail -1 | cut -c1-60)
if git apply $S/patch.diff 2>/dev/null; then a=applied; else a=NOAPPLY; fi
p=$(go test -vet=off -count=1 -run "^($run)\$" ./$T/ 2>&1 | tail -1 | cut -c1-60)
for t in $S/demo/*_test.go; do rm -f $W/$T/$(basename $t); done
k=$(go test -vet=off -count=1 ./$T/ 2>&1 | tail -1 | cut -c1-60)
echo "$N [$T] $a | HEAD: $h | PATCHED: $p | PKG: $k"
cd /; git -C /repo worktree remove --force $W; rm -rf $W
