#!/bin/bash
# mkdt11.sh Cnn id1 [id2...] : private checker copy /dev/shm/dt11w-Cnn with missed/<id> (ids looked up in sd9stage and sd9bstage), prompt /tmp/dt11prompt-Cnn.txt
P=$1; shift; W=/dev/shm/dt11w-$P; rm -rf $W; mkdir -p $W
rsync -a --exclude .git --exclude evidence /verif/ $W/; mkdir -p $W/evidence $W/missed
for id in "$@"; do for s in /tmp/sd9stage /tmp/sd9bstage; do [ -d $s/$P/$id ] && cp -r $s/$P/$id $W/missed/$id; done; done
sed 's/Budget: about 60-90 minutes\./HARD TIME LIMIT: 20 minutes of wall clock in total. Skip the corpus patches and the full corpus run if time is short: the essential deliverable is a sound rule that holds on \/repo, catches the missed change, keeps the earlier seeds of your property caught and stays silent on the refseeded refactorings of your property. If you cannot finish a rule for a change in time, report that rather than delivering an unsound rule./' /verif/tools/agents/detect_preamble.txt | sed 's|\$W/check CNN quick   |$W/bin/godcheck -property CNN -tier quick -repo /repo -verif $W  # (do NOT run $W/check: it writes into /verif)|' | sed "s/CNN/$P/g; s/cNN/c${P#C}/g" > /tmp/dt11prompt-$P.txt
printf "\nNAME = dt11$P\nW = $W\nYour property: $P\nMissed changes: $*\nTo run seeded.py on your property's earlier seeds only (faster): mkdir -p /dev/shm/dt11$P/s && cp -r \$W/seeded/$P-* /dev/shm/dt11$P/s/ && python3 \$W/tools/seeded.py /dev/shm/dt11$P/s\n" >> /tmp/dt11prompt-$P.txt
echo /tmp/dt11prompt-$P.txt
