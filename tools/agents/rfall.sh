#!/bin/bash
# rfall.sh <stage-dir-entry>: apply patch to scratch copy, run ALL 20 properties, print non-silent ones
d0=$1; name=$(basename $d0); d=$(mktemp -d /tmp/godref.XXXXXX)
rsync -a --exclude .git /repo/ $d/repo/
if ! patch -p1 -s -f --no-backup-if-mismatch -d $d/repo -i $d0/patch.diff >/dev/null 2>&1; then echo "$name PATCH-DOES-NOT-APPLY"; rm -rf $d; exit; fi
mkdir -p $d/verif/evidence; cp /verif/known_findings.json $d/verif/
bad=""
for i in 01 02 03 04 05 06 07 08 09 10 11 12 13 14 15 16 17 18 19 20; do
  out=$(/verif/bin/godcheck -property C$i -tier quick -repo $d/repo -verif $d/verif 2>&1); rc=$?
  if [ $rc -ne 0 ]; then bad="$bad C$i"; echo "$out" | grep -E '^(VIOLATION|UNRESOLVED)' | head -5 | sed "s/^/   $name C$i: /" | cut -c1-400; fi
done
echo "$name ${bad:-silent-on-all-20}"
rm -rf $d
