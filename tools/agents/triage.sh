#!/bin/bash
# triage.sh <finding-dir>: demo fails on HEAD, passes with fix.diff; tests of touched packages pass with the fix
S=$1; N=$(basename $(dirname $S))-$(basename $S)
export GOFLAGS=-mod=mod GOPROXY=off GOSUMDB=off GOTOOLCHAIN=local GOCACHE=/dev/shm/triagecache
f=$(ls $S/demo/*_test.go 2>/dev/null | head -1)
[ -z "$f" ] && { echo "$N: no demo"; exit 0; }
path=$(head -20 $f | grep -o -m1 '[a-z][a-zA-Z0-9_/]*/[a-zA-Z0-9_]*_test\.go')
T=${2:-$(dirname "$path")}
[ -z "$path" -a -z "${2:-}" ] && { echo "$N: demo placement not found"; exit 0; }
W=$(mktemp -d /tmp/tri.XXXXXX); rmdir $W
git -C /repo worktree add -q --detach $W HEAD || { echo "$N worktree failed"; exit 2; }
cp /repo/go.sum $W/
cp $S/demo/*_test.go $W/$T/
run=$(grep -ho 'func Test[A-Za-z0-9_]*' $S/demo/*_test.go | sed 's/func //' | paste -sd'|')
cd $W
h=$(timeout 120 go test -vet=off -count=1 -run "^($run)\$" ./$T/ 2>&1 | tail -1 | cut -c1-70)
if [ -s $S/fix.diff ]; then
  if git apply $S/fix.diff 2>/dev/null; then a=applied; else a=NOAPPLY; fi
  p=$(timeout 120 go test -vet=off -count=1 -run "^($run)\$" ./$T/ 2>&1 | tail -1 | cut -c1-70)
  pk=$(git diff --name-only | xargs -n1 dirname | sort -u | sed 's|^|./|;s|$|/...|' | tr '\n' ' ')
  mkdir -p /tmp/tri_hold; for t in $S/demo/*_test.go; do mv $W/$T/$(basename $t) /tmp/tri_hold/ 2>/dev/null; done
  k=$(timeout 600 go test -vet=off -count=1 $pk 2>&1 | grep -v "^ok\|no test files" | head -3 | tr '\n' ';' | cut -c1-200)
  st=$(git diff --stat | tail -1)
else a=NOFIX; p=-; k=-; st=-; fi
echo "$N [$T] fix:$a | HEAD: $h | FIXED: $p | PKGTESTS-not-ok: [$k] | $st"
cd /; git -C /repo worktree remove --force $W
