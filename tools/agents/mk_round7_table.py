import json,glob,os,re,subprocess,tempfile,shutil,concurrent.futures as cf
missed=set("C20-vm2 C08-vm2 C09-vm3 C15-vm3 C17-vm2 C19-vm1 C01-vm3 C03-vm3 C04-vm2 C07-vm3 C10-vm1 C10-vm2 C10-vm3 C11-vm2 C11-vm3 C12-vm2 C12-vm3 C13-vm2 C05-vm1 C05-vm2 C05-vm3 C14-vm3 C16-vm2 C18-vm3".split())
root='/verif/seeded'
def run(d0):
    name=os.path.basename(d0); m=json.load(open(d0+'/meta.json')); prop=m['property']
    d=tempfile.mkdtemp(prefix='r7t.',dir='/tmp')
    try:
        subprocess.run(['rsync','-a','--exclude','.git','/repo/',d+'/repo/'],check=True)
        r=subprocess.run(['patch','-p1','-s','-f','--no-backup-if-mismatch','-d',d+'/repo','-i',d0+'/patch.diff'],capture_output=True,text=True)
        os.makedirs(d+'/verif/evidence'); shutil.copy('/verif/known_findings.json',d+'/verif/')
        r=subprocess.run(['/verif/bin/godcheck','-property',prop,'-tier','quick','-repo',d+'/repo','-verif',d+'/verif'],capture_output=True,text=True)
        keys=[]
        for t,k in re.findall(r'^(VIOLATION|UNRESOLVED) (C\d+-\S+)',r.stdout,re.M):
            k=re.sub(r'^C\d+-','',k)
            if k not in keys: keys.append(k)
        return name,m.get('summary','').replace('|','/').replace('\n',' ')[:170],keys
    finally: shutil.rmtree(d,ignore_errors=True)
ds=sorted(glob.glob(root+'/C*-vm*'))
with cf.ThreadPoolExecutor(8) as ex: res=list(ex.map(run,ds))
print('| seed | change | caught by |\n|---|---|---|')
nc=0
for name,summ,keys in res:
    c=', '.join(keys[:4]) if keys else '**MISSED**'
    if keys: nc+=1
    if name in missed and keys: c+=' — **added**'
    print(f'| {name} | {summ} | {c} |')
print(f'\n<!-- caught {nc} of {len(res)} -->')
