import json,glob,os,re,subprocess,tempfile,shutil,concurrent.futures as cf
missed=set("C05-wm1 C07-wm1 C09-wm1 C10-wm1 C15-wm1 C15-wm2 C19-wm1 C01-xm1 C04-xm1 C05-xm1 C05-xm2 C11-xm1 C15-xm1 C17-xm1 C18-xm1 C19-xm1 C20-xm1".split())
root='/verif/seeded'
def run(d0):
    name=os.path.basename(d0); m=json.load(open(d0+'/meta.json')); prop=m['property']
    d=tempfile.mkdtemp(prefix='r9t.',dir='/tmp')
    try:
        subprocess.run(['rsync','-a','--exclude','.git','/repo/',d+'/repo/'],check=True)
        r=subprocess.run(['patch','-p1','-s','-f','--no-backup-if-mismatch','-d',d+'/repo','-i',d0+'/patch.diff'],capture_output=True,text=True)
        os.makedirs(d+'/verif/evidence'); shutil.copy('/verif/known_findings.json',d+'/verif/')
        r=subprocess.run(['/verif/bin/godcheck','-property',prop,'-tier','quick','-repo',d+'/repo','-verif',d+'/verif'],capture_output=True,text=True)
        keys=[]
        for t,k in re.findall(r'^(VIOLATION|UNRESOLVED) (C\d+-\S+)',r.stdout,re.M):
            k=re.sub(r'^C\d+-','',k)
            if k not in keys: keys.append(k)
        return name,m.get('summary','').replace('|','/').replace('\n',' ')[:170],keys
    finally: shutil.rmtree(d,ignore_errors=True)
ds=sorted(glob.glob(root+'/C*-wm*')+glob.glob(root+'/C*-xm*'))
with cf.ThreadPoolExecutor(8) as ex: res=list(ex.map(run,ds))
print('| seed | change | caught by |\n|---|---|---|')
nc=0
for name,summ,keys in res:
    c=', '.join(keys[:4]) if keys else '**MISSED**'
    if keys: nc+=1
    if name in missed and keys: c+=' — **added**'
    print(f'| {name} | {summ} | {c} |')
print(f'\n<!-- caught {nc} of {len(res)} -->')
