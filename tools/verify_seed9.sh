#!/bin/sh
# verify9.sh <seed-dir> [demo-target-dir-relative-to-repo]
# Confirms in a scratch worktree: demo passes on HEAD, fails with patch; tests of the changed packages AND of every
# package that (transitively) imports them pass with the patch, demo absent.
set -u
S="$1"; export GOFLAGS=-mod=mod GOPROXY=off GOSUMDB=off GOTOOLCHAIN=local GOWORK=off
W=$(mktemp -d /tmp/vseed.XXXXXX); rmdir $W
git -C /repo worktree add -q --detach $W HEAD || exit 2
cp /repo/go.sum $W/go.sum
trap 'git -C /repo worktree remove --force $W; rm -rf $W' EXIT
first=$(python3 -c "import json;print(json.load(open('$S/meta.json'))['files'][0])")
T="${2:-$(dirname $first)}"
cp $S/demo/*_test.go $W/$T/ 2>/dev/null || { echo "no demo test files"; exit 2; }
run=$(grep -ho 'func Test[A-Za-z0-9_]*' $S/demo/*_test.go | sed 's/func //' | paste -sd'|')
cd $W
echo "== demo on HEAD (expect PASS)"; go test -vet=off -count=1 -run "^($run)\$" ./$T/ 2>&1 | tail -3
git apply $S/patch.diff || { echo "patch does not apply"; exit 2; }
echo "== demo with change (expect FAIL)"; go test -vet=off -count=1 -run "^($run)\$" ./$T/ 2>&1 | tail -4
rm -f $(cd $S/demo && ls *_test.go | sed "s|^|$W/$T/|")
changed=$(git diff --name-only | grep '\.go$' | xargs -n1 dirname | sort -u | sed 's|^|github.com/gotid/god/|')
pk=$(go list -test -deps -f '{{if .ForTest}}{{else}}{{.ImportPath}}{{end}}' ./... >/dev/null 2>&1; go list -f '{{.ImportPath}} {{join .Deps " "}} {{join .TestImports " "}} {{join .XTestImports " "}}' ./... | python3 -c "
import sys
ch=set('''$changed'''.split())
deps={}
for l in sys.stdin:
    f=l.split(); deps[f[0]]=set(f[1:])
# transitive over test imports too
out=set(ch)
chg=True
while chg:
    chg=False
    for p,d in deps.items():
        if p not in out and d & out: out.add(p); chg=True
print(' '.join(sorted(out)))
")
n=$(echo $pk | wc -w)
echo "== tests of $n packages depending on the change, demo absent (expect no FAIL)"; go test -vet=off -count=1 $pk 2>&1 | grep -v '^ok\|no test files' | tail -8
git checkout -q -- go.mod 2>/dev/null
