#!/bin/sh
# verify_stage.sh <stagedir>: verify every seed in it (demo placement parsed from the demo header)
export GOCACHE=/tmp/gocache-mainverify GOTMPDIR=/tmp/gotmp-mainverify; mkdir -p $GOCACHE $GOTMPDIR
for d in $1/*; do
  s=$(basename $d); f=$(ls $d/demo/*_test.go 2>/dev/null | head -1)
  [ -z "$f" ] && { echo "#### $s: no demo test"; continue; }
  tgt=$(grep -m1 -oE '[A-Za-z0-9_./-]+_test\.go' $f | head -1); dir=$(dirname "$tgt")
  case "$dir" in .|"") dir=$(python3 -c "import json;print(json.load(open('$d/meta.json'))['files'][0].rsplit('/',1)[0])");; esac
  echo "#### $s ($dir)"; /verif/tools/verify_seed.sh $d $dir 2>&1 | grep -v "^WARNING" | grep "^==\|^ok\|^FAIL\|does not apply\|no demo\|cannot find\|no such" | head -9
done
rm -rf /tmp/gocache-mainverify /tmp/gotmp-mainverify
