#!/bin/sh
export GOFLAGS=-mod=mod GOPROXY=off GOSUMDB=off GOTOOLCHAIN=local
for k in m1 m2 m3; do
  S=$1/C20-q$k
  for mode in head patched; do
    W=$(mktemp -d /tmp/vc20.XXXXXX); rsync -a --exclude .git /repo/tools/god/util/ $W/src/
    [ $mode = patched ] && (cd /repo && git diff --no-index /dev/null /dev/null >/dev/null 2>&1; true) && (mkdir -p $W/tree/tools/god && rsync -a /repo/tools/god/util $W/tree/tools/god/ && cd $W/tree && patch -p1 -s < $S/patch.diff && rsync -a $W/tree/tools/god/util/ $W/src/)
    mkdir -p $W/mod && cp -r $W/src/format $W/src/stringx $W/mod/ && cd $W/mod && sed -i 's|github.com/gotid/god/tools/god/util/stringx|c20mod/stringx|' format/*.go && printf 'module c20mod\n\ngo 1.19\n\nrequire (\n\tgolang.org/x/text v0.5.0\n\tgithub.com/stretchr/testify v1.8.1\n)\n' > go.mod && cp /repo/go.sum .
    pkg=$(grep -m1 -o 'package [a-z]*' $S/demo/*_test.go | awk '{print $2}')
    echo "== C20-$k $mode: existing tests"; go test -count=1 ./... 2>&1 | tail -2
    cp $S/demo/*_test.go $W/mod/$pkg/; sed -i 's|github.com/gotid/god/tools/god/util/stringx|c20mod/stringx|' $W/mod/$pkg/*_test.go
    echo "== C20-$k $mode: demo"; go test -count=1 ./$pkg/ 2>&1 | tail -2
    cd /; rm -rf $W
  done
done
