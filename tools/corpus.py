#!/usr/bin/env python3
"""corpus.py <Cnn|all> [-j N] [--only substr]: self-test of the checker.
Each corpus/<Cnn>/*.patch is applied to a scratch copy of /repo (outside /repo and /verif,
removed afterwards); a mutant must make the check fire on the expected obligation, a refactor must
leave it silent. Results are merged into evidence/<Cnn>.json (coverage.corpus) when that file exists."""
import sys, os, re, json, glob, subprocess, tempfile, shutil, concurrent.futures as cf
V = os.environ.get('VERIF_DIR', '/verif')
def run_one(prop, patch):
    txt = open(patch).read()
    kind = re.search(r'^# kind: (\w+)', txt, re.M).group(1)
    expect = re.search(r'^# expect: (.*)$', txt, re.M).group(1).strip()
    d = tempfile.mkdtemp(prefix='godcorpus.', dir=os.environ.get('TMPDIR', '/tmp'))
    try:
        subprocess.run(['rsync', '-a', '--exclude', '.git', '/repo/', d + '/repo/'], check=True)
        r = subprocess.run(['patch', '-p1', '-s', '-f', '--no-backup-if-mismatch', '-d', d + '/repo', '-i', patch], capture_output=True, text=True)
        if r.returncode != 0:
            return dict(patch=os.path.basename(patch), kind=kind, result='skipped', detail='patch does not apply to the current tree')
        os.makedirs(d + '/verif/evidence')
        shutil.copy(V + '/known_findings.json', d + '/verif/known_findings.json')
        for attempt in range(3):
            r = subprocess.run([V + '/bin/godcheck', '-property', prop, '-tier', 'quick', '-repo', d + '/repo', '-verif', d + '/verif'], capture_output=True, text=True)
            # exit codes other than 0/1, or a loader failure that is not a type error (go list killed under load), are retried
            if r.returncode in (0, 1) and not re.search(r'UNRESOLVED: (packages\.Load|only \d+ packages)', r.stdout):
                break
        fired = re.findall(r'^(VIOLATION|UNRESOLVED) (C\d+-\S+)', r.stdout, re.M)
        keys = [k for _, k in fired]
        if any(k.endswith('-loader') for k in keys):
            return dict(patch=os.path.basename(patch), kind=kind, result='invalid', detail='patched tree does not type-check: ' + r.stdout[:300])
        if kind == 'mutant':
            hit = [k for t, k in fired if re.search(expect, k)]
            ok = bool(hit) and r.returncode == 1
            return dict(patch=os.path.basename(patch), kind=kind, result='detected' if ok else 'MISSED', fired=keys, expect=expect)
        ok = r.returncode == 0 and not fired
        return dict(patch=os.path.basename(patch), kind=kind, result='silent' if ok else 'FALSE-ALARM', fired=keys, detail='' if ok else r.stdout[-600:])
    finally:
        shutil.rmtree(d, ignore_errors=True)
def main():
    args = sys.argv[1:]
    jobs, only = 8, None
    if '-j' in args: jobs = int(args[args.index('-j') + 1])
    if '--only' in args: only = args[args.index('--only') + 1]
    props = sorted(os.path.basename(p) for p in glob.glob(V + '/corpus/C*')) if args[0] == 'all' else [args[0]]
    bad = 0
    for prop in props:
        patches = sorted(glob.glob(f'{V}/corpus/{prop}/*.patch'))
        if only: patches = [p for p in patches if only in p]
        if not patches: continue
        with cf.ThreadPoolExecutor(jobs) as ex:
            res = list(ex.map(lambda p: run_one(prop, p), patches))
        for r in res:
            flag = r['result']
            if flag in ('MISSED', 'FALSE-ALARM', 'invalid'): bad += 1
            print(f"SELFTEST {prop} {r['patch']:55s} {r['kind']:8s} {flag} {r.get('fired', '') if flag in ('MISSED','FALSE-ALARM') else ''} {r.get('detail','') if flag in ('invalid','FALSE-ALARM') else ''}")
        ev = f'{V}/evidence/{prop}.json'
        if os.path.exists(ev) and not only:
            e = json.load(open(ev))
            e['coverage']['corpus'] = dict(
                mutants=sum(r['kind'] == 'mutant' for r in res), detected=sum(r['result'] == 'detected' for r in res),
                refactors=sum(r['kind'] == 'refactor' for r in res), silent=sum(r['result'] == 'silent' for r in res),
                skipped=sum(r['result'] == 'skipped' for r in res), results=res)
            json.dump(e, open(ev + '.tmp', 'w'), indent=1, ensure_ascii=False); os.replace(ev + '.tmp', ev)
    print(f'SELFTEST summary: {bad} problems')
    return 1 if bad else 0
if __name__ == '__main__': sys.exit(main())
