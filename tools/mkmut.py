#!/usr/bin/env python3
"""mkmut.py <Cnn> <name> <mutant|refactor> <expect-regex|-> (<file> <old> <new>)+
Creates /verif/corpus/<Cnn>/<name>.patch from exact, unique text replacements in /repo files."""
import sys, os, difflib
prop, name, kind, expect = sys.argv[1:5]
rest = sys.argv[5:]
out = [f"# kind: {kind}\n", f"# expect: {expect}\n"]
edits = {}
for i in range(0, len(rest), 3):
    f, old, new = rest[i:i+3]
    old = old.encode().decode('unicode_escape').encode('latin1').decode('utf8') if '\\n' in old or '\\t' in old else old
    new = new.encode().decode('unicode_escape').encode('latin1').decode('utf8') if '\\n' in new or '\\t' in new else new
    src = edits.get(f) or open('/repo/' + f).read()
    if src.count(old) != 1:
        sys.exit(f"{f}: old text occurs {src.count(old)} times: {old!r}")
    edits[f] = src.replace(old, new)
for f, new in edits.items():
    a = open('/repo/' + f).read().splitlines(True)
    b = new.splitlines(True)
    out += difflib.unified_diff(a, b, 'a/' + f, 'b/' + f)
V = os.environ.get('VERIF_DIR', '/verif')
os.makedirs(f'{V}/corpus/{prop}', exist_ok=True)
open(f'{V}/corpus/{prop}/{name}.patch', 'w').write(''.join(out))
print(f'corpus/{prop}/{name}.patch')
