#!/usr/bin/env python3
"""mkpatch2.py <Cnn> <name> <mutant|refactor> <expect|-> <pyfile>
pyfile defines EDITS = [(path, old, new, count_or_None)], replacing all `count` occurrences (None = exactly 1)."""
import sys, os, difflib
prop, name, kind, expect, spec = sys.argv[1:6]
ns = {}
exec(open(spec).read(), ns)
out = [f"# kind: {kind}\n", f"# expect: {expect}\n"]
edits = {}
for f, old, new, cnt in ns['EDITS']:
    src = edits.get(f) or open('/repo/' + f).read()
    c = src.count(old)
    if (cnt is None and c != 1) or (cnt is not None and c != cnt):
        sys.exit(f"{f}: old text occurs {c} times: {old!r}")
    edits[f] = src.replace(old, new)
for f, new in edits.items():
    a = open('/repo/' + f).read().splitlines(True)
    out += difflib.unified_diff(a, new.splitlines(True), 'a/' + f, 'b/' + f)
V = os.environ.get('VERIF_DIR', '/verif')
os.makedirs(f'{V}/corpus/{prop}', exist_ok=True)
open(f'{V}/corpus/{prop}/{name}.patch', 'w').write(''.join(out))
print(f'corpus/{prop}/{name}.patch')
