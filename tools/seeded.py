#!/usr/bin/env python3
"""seeded.py [dir-with-mK-subdirs | /verif/seeded] : runs the property's check against each seeded change
on a scratch copy of /repo and reports which obligations fire."""
import sys, os, re, json, glob, subprocess, tempfile, shutil
V = os.environ.get('VERIF_DIR', '/verif')
root = sys.argv[1] if len(sys.argv) > 1 else V + '/seeded'
res = []
for meta in sorted(glob.glob(root + '/*/meta.json')):
    d0 = os.path.dirname(meta)
    m = json.load(open(meta))
    prop = m['property']
    d = tempfile.mkdtemp(prefix='godseed.', dir=os.environ.get('TMPDIR', '/tmp'))
    try:
        subprocess.run(['rsync', '-a', '--exclude', '.git', '/repo/', d + '/repo/'], check=True)
        r = subprocess.run(['git', 'apply', '--unsafe-paths', '--directory=' + d + '/repo', d0 + '/patch.diff'], capture_output=True, text=True, cwd='/')
        if r.returncode != 0:
            r = subprocess.run(['patch', '-p1', '-s', '-f', '--no-backup-if-mismatch', '-d', d + '/repo', '-i', d0 + '/patch.diff'], capture_output=True, text=True)
        if r.returncode != 0:
            print(f'{os.path.basename(d0):12s} {prop} patch does not apply: {r.stderr[:200]}'); continue
        os.makedirs(d + '/verif/evidence'); shutil.copy(V + '/known_findings.json', d + '/verif/')
        r = subprocess.run([V + '/bin/godcheck', '-property', prop, '-tier', 'quick', '-repo', d + '/repo', '-verif', d + '/verif'], capture_output=True, text=True)
        fired = re.findall(r'^(VIOLATION|UNRESOLVED) (C\d+-\S+)', r.stdout, re.M)
        msgs = re.findall(r'^  (\S+\.go:\d+.*)$', r.stdout, re.M)
        print(f"{os.path.basename(d0):12s} {prop} {'CAUGHT' if r.returncode == 1 else 'missed'} {[k for _, k in fired]}")
        for x in msgs[:4]: print('      ', x[:220])
        res.append(dict(id=os.path.basename(d0), property=prop, caught=r.returncode == 1, obligations=[k for _, k in fired]))
    finally:
        shutil.rmtree(d, ignore_errors=True)
json.dump(res, open('/tmp/seeded_result.json', 'w'), indent=1)
