#!/bin/sh
# autorefactor.sh [rename|negate|reorder ...]: false-alarm test. Applies a behaviour-preserving transformation to the
# whole main module in a scratch copy (removed afterwards) and runs every check on it: each must stay silent.
V=/verif; export GOPROXY=off GOSUMDB=off GOTOOLCHAIN=local GOWORK=off
[ -x $V/bin/autorefactor ] || (cd $V/checker && GOFLAGS=-mod=vendor go build -o $V/bin/autorefactor ./cmd/autorefactor)
for t in ${@:-rename negate reorder}; do
  d=$(mktemp -d ${TMPDIR:-/tmp}/godrefac.XXXXXX)
  rsync -a --exclude .git /repo/ $d/repo/ && mkdir -p $d/verif/evidence && cp $V/known_findings.json $d/verif/
  $V/bin/autorefactor -repo $d/repo -t $t || { echo "AUTOREFACTOR $t: transformation failed"; rm -rf $d; continue; }
  (cd $d/repo && GOFLAGS=-mod=readonly go build ./... 2>&1 | head -5)
  for p in C01 C02 C03 C04 C05 C06 C07 C08 C09 C10 C11 C12 C13 C14 C15 C16 C17 C18 C19 C20; do
    out=$($V/bin/godcheck -property $p -tier quick -repo $d/repo -verif $d/verif 2>&1); rc=$?
    if [ $rc -ne 0 ]; then echo "AUTOREFACTOR $t $p FALSE-ALARM"; echo "$out" | grep -E "^(VIOLATION C|UNRESOLVED C)|^  [a-zA-Z].*(go:[0-9]+|UNRESOLVED)" | cut -c1-260 | head -12; else echo "AUTOREFACTOR $t $p silent"; fi
  done
  rm -rf $d
done
