#!/usr/bin/env python3
"""Regenerates /verif/MANIFEST.json from tools/claims.json (one entry per claimed property)."""
import json, sys
V = '/verif'
claims = json.load(open(f'{V}/tools/claims.json'))
props = [json.loads(l) for l in open(f'{V}/properties.jsonl')]
checks, na = [], []
for p in props:
    pid = p['id']
    c = claims.get(pid)
    if not c or not c.get('claimed'):
        na.append({"property_id": pid, "reason": (c or {}).get('reason', 'no static check built yet for this property in this round; nothing is claimed')})
        continue
    checks.append({
        "property_id": pid,
        "quick_cmd": f"/verif/check {pid} quick",
        "thorough_cmd": f"/verif/check {pid} thorough",
        "evidence_file": f"/verif/evidence/{pid}.json",
        "replay_cmd_template": f"/verif/check {pid} quick -only \"$(jq -r .obligation {{path}})\"",
        "engine": "godcheck",
        "level_claimed": {"category": "other", "text": c['text'], "design_ref": c.get('design_ref', f'DESIGN.md §4 {pid}')},
        "level_note": c['note'],
        "technique": c['technique'],
    })
m = {
    "version": 1,
    "setup_cmd": "cd /verif/checker && GOFLAGS=-mod=vendor GOPROXY=off GOSUMDB=off GOTOOLCHAIN=local GOWORK=off go build -o /verif/bin/godcheck .",
    "hooks": {
        "guard": "verif",
        "enable": "none: the checks are static analyses of /repo's source; no hook or instrumentation is compiled into gotid/god",
        "baseline_off_cmd": "cd /repo && go test -mod=mod -vet=off -count=1 -timeout 25m ./...",
        "source_commits": [],
        "add_only": True,
    },
    "engines": [{
        "name": "godcheck", "path": "/verif/checker",
        "serves_properties": [c['property_id'] for c in checks],
        "kind_free_text": "repository-specific static analysis over go/packages + go/ssa (x/tools v0.29.0, vendored): edge-cut guard reachability, must-pass/at-most-once path rules, order rules, lock-set (guarded-by) analysis, ownership (who-may-call/who-may-write), constant/table agreement, polynomial normal forms of formulas, data-dependence slices, sibling agreement",
    }],
    "checks": checks,
    "notes": "Static analysis only. Every claimed property is claimed at level 'other': each check decides structural necessary conditions (named per obligation in the evidence file) on all control-flow paths of /repo's current source; the behavioural cores (listed per property in DESIGN.md §4 under N and in each evidence file under coverage.not_decided) are not decided. Unresolved anchors fail closed through the VIOLATION interface.",
    "not_applicable": na,
}
json.dump(m, open(f'{V}/MANIFEST.json', 'w'), indent=1, ensure_ascii=False)
print(f"claimed {len(checks)} not_applicable {len(na)}")
