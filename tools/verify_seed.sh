#!/bin/sh
# verify_seed.sh <seed-dir> [demo-target-dir-relative-to-repo]
# Confirms in a scratch worktree: demo passes on HEAD, fails with patch; affected package tests pass with patch (demo absent).
set -u
S="$1"; export GOFLAGS=-mod=mod GOPROXY=off GOSUMDB=off GOTOOLCHAIN=local
W=$(mktemp -d /tmp/vseed.XXXXXX); rmdir $W
git -C /repo worktree add -q --detach $W HEAD || exit 2
trap 'git -C /repo worktree remove --force $W; rm -rf $W' EXIT
first=$(python3 -c "import json;print(json.load(open('$S/meta.json'))['files'][0])")
T="${2:-$(dirname $first)}"
cp $S/demo/*_test.go $W/$T/ 2>/dev/null || { echo "no demo test files"; exit 2; }
run=$(grep -ho 'func Test[A-Za-z0-9_]*' $S/demo/*_test.go | sed 's/func //' | paste -sd'|')
cd $W
echo "== demo on HEAD (expect PASS)"; go test -vet=off -count=1 -run "^($run)\$" ./$T/ 2>&1 | tail -3
git apply $S/patch.diff || { echo "patch does not apply"; exit 2; }
echo "== demo with change (expect FAIL)"; go test -vet=off -count=1 -run "^($run)\$" ./$T/ 2>&1 | tail -4
rm -f $(cd $S/demo && ls *_test.go | sed "s|^|$W/$T/|")
echo "== package tests with change, demo absent (expect ok)"; go test -vet=off -count=1 ./$T/... 2>&1 | tail -3
