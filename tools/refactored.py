#!/usr/bin/env python3
"""refactored.py [dir with */meta.json + patch.diff | /verif/refseeded]: false-alarm test on independently written
behaviour-preserving refactorings: applies each to a scratch copy of /repo and runs the property's check, which must stay silent."""
import sys, os, re, json, glob, subprocess, tempfile, shutil
V = os.environ.get('VERIF_DIR', '/verif')
root = sys.argv[1] if len(sys.argv) > 1 else V + '/refseeded'
for meta in sorted(glob.glob(root + '/*/meta.json')):
    d0 = os.path.dirname(meta); m = json.load(open(meta)); prop = m['property']
    d = tempfile.mkdtemp(prefix='godref.', dir=os.environ.get('TMPDIR', '/tmp'))
    try:
        subprocess.run(['rsync', '-a', '--exclude', '.git', '/repo/', d + '/repo/'], check=True)
        r = subprocess.run(['patch', '-p1', '-s', '-f', '--no-backup-if-mismatch', '-d', d + '/repo', '-i', d0 + '/patch.diff'], capture_output=True, text=True)
        if r.returncode != 0:
            print(f'{os.path.basename(d0):10s} {prop} patch does not apply'); continue
        os.makedirs(d + '/verif/evidence'); shutil.copy(V + '/known_findings.json', d + '/verif/')
        props = [prop] + sys.argv[2:]
        for pp in props:
            r = subprocess.run([V + '/bin/godcheck', '-property', pp, '-tier', 'quick', '-repo', d + '/repo', '-verif', d + '/verif'], capture_output=True, text=True)
            fired = re.findall(r'^(VIOLATION|UNRESOLVED) (C\d+-\S+)', r.stdout, re.M)
            msgs = re.findall(r'^  (\S.*)$', r.stdout, re.M)
            print(f"{os.path.basename(d0):10s} {pp} {'silent' if r.returncode == 0 else 'FALSE-ALARM'} {[k for _, k in fired]}")
            if r.returncode != 0:
                for x in msgs[:8]: print('      ', x[:260])
    finally:
        shutil.rmtree(d, ignore_errors=True)
