#!/usr/bin/env python3
"""mkmut_after.py <Cnn> <name> <expect> <file> <fix-old> <fix-new> <old> <new>: mutant patch against the tree with the fix applied."""
import sys, os, difflib
prop, name, expect, f, fo, fn, old, new = sys.argv[1:9]
dec = lambda s: s.encode().decode('unicode_escape').encode('latin1').decode('utf8') if ('\\n' in s or '\\t' in s) else s
fo, fn, old, new = map(dec, (fo, fn, old, new))
src = open('/repo/' + f).read()
if src.count(fo) == 1:
    fixed = src.replace(fo, fn)
elif src.count(fn) >= 1 and src.count(fo) == 0:
    fixed = src  # fix already committed
else:
    sys.exit('fix text not found')
assert fixed.count(old) == 1, fixed.count(old)
mut = fixed.replace(old, new)
out = ["# kind: mutant\n", f"# expect: {expect}\n"] + list(difflib.unified_diff(fixed.splitlines(True), mut.splitlines(True), 'a/' + f, 'b/' + f))
V = os.environ.get('VERIF_DIR', '/verif')
open(f'{V}/corpus/{prop}/{name}.patch', 'w').write(''.join(out))
print(name)
